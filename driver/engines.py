"""Engine definitions: which repo sources run for real, which seams are wrapped."""

ALLOC_WRAPS = ['malloc', 'calloc', 'realloc', 'free', 'strdup', 'atexit']

EVENTS_SRC = [
    'events/events.c', 'events/events_immediate.c', 'events/events_network.c',
    'events/events_network_selectstats.c', 'events/events_timer.c',
    'datastruct/elasticarray.c', 'datastruct/ptrheap.c', 'datastruct/timerqueue.c',
    'util/monoclock.c', 'util/warnp.c',
]
NET_SRC = EVENTS_SRC + [
    'network/network_read.c', 'network/network_write.c', 'network/network_accept.c',
    'network/network_connect.c', 'util/sock.c', 'util/sock_util.c', 'util/asprintf.c',
    'netbuf/netbuf_read.c', 'netbuf/netbuf_write.c',
]
SOCK_WRAPS = ['poll', 'clock_gettime', 'recv', 'send', 'socket', 'connect', 'bind', 'fcntl',
              'getsockopt', 'setsockopt', 'accept', 'close', 'syslog', 'openlog', 'closelog']

ENGINES = {
    'evloop': dict(
        harness=['engines/evloop.c'],
        sim=['sim/sim.c', 'sim/simalloc.c'],
        repo=EVENTS_SRC,
        inc=['events', 'datastruct', 'util', 'external/queue', '.'],
        wrap=['poll', 'clock_gettime'] + ALLOC_WRAPS,
        libs=[],
        props=['C04', 'C05', 'C14'],
        real='events.c events_immediate.c events_network.c events_network_selectstats.c events_timer.c '
             'timerqueue.c ptrheap.c elasticarray.c mpool.h monoclock.c warnp.c',
        stub='poll(2), clock_gettime(2), allocator policy (malloc/realloc/free via --wrap), atexit',
    ),
    'netio': dict(
        harness=['engines/netio.c'],
        sim=['sim/sim.c', 'sim/simalloc.c', 'sim/vkernel.c', 'sim/tls_stub.c'],
        repo=NET_SRC + ['netbuf/netbuf_ssl.c'],
        inc=['network', 'netbuf', 'events', 'datastruct', 'util', 'external/queue', 'network_ssl', '.'],
        wrap=SOCK_WRAPS + ALLOC_WRAPS,
        libs=[],
        props=['C06', 'C07', 'C14'],
        real='network_read.c network_write.c network_accept.c network_connect.c netbuf_read.c netbuf_write.c '
             'netbuf_ssl.c sock.c sock_util.c + the whole event loop as in evloop',
        stub='kernel sockets (socket/connect/recv/send/accept/poll/...), remote peers, clock, allocator policy; '
             'network_ssl.c (TLS record layer) replaced by a null-cipher pass-through that checks the interface contract',
    ),
    'http': dict(
        harness=['engines/http.c'],
        sim=['sim/sim.c', 'sim/simalloc.c', 'sim/vkernel.c', 'sim/tls_stub.c'],
        repo=NET_SRC + ['http/http.c', 'http/https.c', 'netbuf/netbuf_ssl.c'],
        inc=['http', 'network', 'netbuf', 'events', 'datastruct', 'util', 'external/queue', 'network_ssl', '.'],
        wrap=SOCK_WRAPS + ALLOC_WRAPS,
        libs=[],
        props=['C08', 'C09', 'C14'],
        real='http.c https.c netbuf_read.c netbuf_write.c netbuf_ssl.c network_connect.c network_read.c '
             'network_write.c sock.c + the whole event loop',
        stub='kernel sockets, the HTTP server (scripted peer), clock, allocator policy; network_ssl.c (TLS record '
             'layer) replaced by a null-cipher pass-through that checks the interface contract',
    ),
    'containers': dict(
        harness=['engines/containers.c'],
        sim=['sim/sim.c', 'sim/simalloc.c'],
        repo=['datastruct/elasticarray.c', 'datastruct/elasticqueue.c', 'datastruct/seqptrmap.c',
              'datastruct/ptrheap.c', 'datastruct/timerqueue.c', 'util/warnp.c', 'util/asprintf.c'],
        inc=['datastruct', 'util', '.'],
        wrap=ALLOC_WRAPS,
        libs=[],
        props=['C12', 'C13', 'C14'],
        real='elasticarray.c elasticqueue.c seqptrmap.c ptrheap.c timerqueue.c mpool.h asprintf.c',
        stub='allocator policy (failure, moving realloc, refused shrink, fill pattern), atexit',
    ),
    'entropy': dict(
        harness=['engines/entropy.c', 'models/drbg_ref.c'],
        sim=['sim/sim.c', 'sim/simalloc.c'],
        repo=['crypto/crypto_entropy.c', 'util/entropy.c', 'alg/sha256.c', 'util/insecure_memzero.c',
              'util/warnp.c', 'crypto/crypto_dh.c', 'crypto/crypto_dh_group14.c'],
        inc=['crypto', 'util', 'alg', 'cpusupport', '.'],
        wrap=['open', 'read', 'close', 'crypto_entropy_read'] + ALLOC_WRAPS,
        libs=['-lcrypto'],
        props=['C10', 'C11', 'C20'],
        real='crypto_entropy.c entropy.c sha256.c crypto_dh.c crypto_dh_group14.c insecure_memzero.c, libcrypto BN',
        stub='/dev/urandom (open/read/close), allocator incl. OpenSSL allocator via CRYPTO_set_mem_functions',
    ),
    'secrets': dict(
        harness=['engines/secrets.c', 'models/sigv4_ref.c'],
        sim=['sim/sim.c', 'sim/simalloc.c'],
        repo=['aws/aws_sign.c', 'aws/aws_readkeys.c', 'alg/sha256.c', 'alg/sha1.c', 'alg/md5.c',
              'util/hexify.c', 'util/asprintf.c', 'util/insecure_memzero.c', 'util/warnp.c',
              'crypto/crypto_aes.c', 'crypto/crypto_aesctr.c'],
        inc=['aws', 'alg', 'util', 'crypto', 'cpusupport', '.'],
        wrap=['time', 'fopen'] + ALLOC_WRAPS,
        libs=['-lcrypto'],
        props=['C19', 'C20'],
        real='aws_sign.c aws_readkeys.c sha256.c sha1.c md5.c hexify.c asprintf.c crypto_aes.c crypto_aesctr.c '
             'insecure_memzero.c',
        stub='time(3), fopen (scripted fopencookie stream incl. read errors and failing close), allocator',
    ),
}

# the same harness built with the AES-NI code paths compiled in (used at run time only if the CPU has AES-NI)
ENGINES['secrets_hw'] = dict(ENGINES['secrets'],
    repo=ENGINES['secrets']['repo'] + ['crypto/crypto_aes_aesni.c', 'crypto/crypto_aesctr_aesni.c', 'cpusupport/cpusupport_x86_aesni.c'],
    cflags=['-maes', '-msse2'], cpuconfig='sim/aesni_config.h', props=['C20'],
    real=ENGINES['secrets']['real'] + ' crypto_aes_aesni.c crypto_aesctr_aesni.c (hardware AES paths)')

# the same harness as an optimised production-style build (-O2, no sanitizers): zeroing that the compiler is
# entitled to delete (a plain memset before free) is deleted here, as it would be in a release build
ENGINES['secrets_o2'] = dict(ENGINES['secrets'], cflags=['-O2'], nosan=True, props=['C20'],
    real=ENGINES['secrets']['real'] + ' (all compiled -O2 without sanitizers, so dead-store elimination applies)')

# ---- alternative build configurations of the same harnesses (a property holds for the library as it is built, and
# the repository has compile-time switches behind which code sits that the default build never compiles).  Each
# variant gets `scale` times the runs of its base engine.
def variant(base, name, scale=0.25, **kw):
    e = dict(ENGINES[base], base=base, scale=scale)
    extra_repo = kw.pop('extra_repo', [])
    extra_cflags = kw.pop('extra_cflags', [])
    note = kw.pop('note', '')
    e.update(kw)
    e['repo'] = ENGINES[base]['repo'] + extra_repo
    e['cflags'] = ENGINES[base].get('cflags', []) + extra_cflags
    e['real'] = ENGINES[base]['real'] + ' ' + note
    ENGINES[name] = e


# SHA-256 through the SSE2 and SHA-NI implementations (sha256.c selects them at run time after a self-test)
variant('secrets', 'secrets_sse2', extra_repo=['alg/sha256_sse2.c', 'cpusupport/cpusupport_x86_sse2.c'],
        extra_cflags=['-msse2'], cpuconfig='sim/sse2_config.h', props=['C19', 'C20'],
        note='[build: CPUSUPPORT_X86_SSE2, sha256_sse2.c]')
variant('secrets', 'secrets_shani',
        extra_repo=['alg/sha256_shani.c', 'cpusupport/cpusupport_x86_shani.c', 'cpusupport/cpusupport_x86_ssse3.c'],
        extra_cflags=['-msse2', '-mssse3', '-msha'], cpuconfig='sim/shani_config.h', props=['C19', 'C20'],
        note='[build: CPUSUPPORT_X86_SHANI+SSSE3, sha256_shani.c]')
variant('entropy', 'entropy_sse2', extra_repo=['alg/sha256_sse2.c', 'cpusupport/cpusupport_x86_sse2.c'],
        extra_cflags=['-msse2'], cpuconfig='sim/sse2_config.h', props=['C11'],
        note='[build: CPUSUPPORT_X86_SSE2, sha256_sse2.c]')
# the generator as x86 builds get it by default: RDRAND output mixed in after every (re)seed.  The instruction and its
# CPUID bit are stubs (seeded stream, scripted "no data"); the reference model does the same extra state update.
variant('entropy', 'entropy_rdrand', scale=0.5, extra_cflags=['-DSIM_RDRAND'], cpuconfig='sim/rdrand_config.h',
        props=['C11'], note='[build: CPUSUPPORT_X86_RDRAND; RDRAND instruction and CPUID bit stubbed]')
# assertions compiled out (-DNDEBUG): a side effect hidden inside assert() disappears, an argument check no longer aborts
variant('secrets', 'secrets_nd', extra_cflags=['-DNDEBUG'], props=['C19', 'C20'], note='[build: -DNDEBUG]')
variant('entropy', 'entropy_nd', extra_cflags=['-DNDEBUG'], props=['C10', 'C11', 'C20'], note='[build: -DNDEBUG]')
variant('evloop', 'evloop_nd', extra_cflags=['-DNDEBUG'], props=['C04', 'C05'], note='[build: -DNDEBUG]')
variant('netio', 'netio_nd', extra_cflags=['-DNDEBUG'], props=['C06', 'C07'], note='[build: -DNDEBUG]')
variant('http', 'http_nd', extra_cflags=['-DNDEBUG'], props=['C08', 'C09'], note='[build: -DNDEBUG]')
variant('containers', 'containers_nd', extra_cflags=['-DNDEBUG'], props=['C12', 'C13'], note='[build: -DNDEBUG]')
# the documented workaround for platforms without MSG_NOSIGNAL (SIGPIPE ignored around send)
variant('netio', 'netio_pf', extra_cflags=['-DPOSIXFAIL_MSG_NOSIGNAL'], props=['C06', 'C07'],
        note='[build: -DPOSIXFAIL_MSG_NOSIGNAL]')

# property -> engines whose runs decide it
PROP_ENGINES = {
    'C04': ['evloop', 'evloop_nd'], 'C05': ['evloop', 'evloop_nd'],
    'C06': ['netio', 'netio_pf', 'netio_nd'], 'C07': ['netio', 'netio_pf', 'netio_nd'],
    'C08': ['http', 'http_nd'], 'C09': ['http', 'http_nd'],
    'C10': ['entropy', 'entropy_nd'], 'C11': ['entropy', 'entropy_nd', 'entropy_sse2', 'entropy_rdrand'],
    'C12': ['containers', 'containers_nd'], 'C13': ['containers', 'containers_nd'],
    'C14': ['containers', 'evloop', 'netio', 'http'],
    'C19': ['secrets', 'secrets_sse2', 'secrets_shani', 'secrets_nd'],
    'C20': ['secrets', 'secrets_hw', 'secrets_o2', 'secrets_sse2', 'secrets_shani', 'secrets_nd', 'entropy',
            'entropy_nd'],
}
