#!/usr/bin/env python3
"""Regenerate MANIFEST.json from the table below (kept in one place so it stays valid)."""
import json
import os
import sys

HERE = os.path.dirname(os.path.abspath(__file__))
VERIF = os.path.dirname(HERE)
sys.path.insert(0, HERE)
from engines import ENGINES, PROP_ENGINES  # noqa: E402

# property -> (category, technique, text, note, design_ref); only properties whose engines exist are claimed
CLAIMS = {
    'C04': ('exploration',
            'deterministic simulation: seeded plans of register/cancel/reset from outside and inside callbacks against the real event '
            'loop over a simulated poll(2)/clock, with EINTR, signals, spurious readiness, hang-ups and clock jumps injected; '
            'reference model of live registrations checked at every callback entry',
            'Seeded search over programs x readiness/clock schedules with a reference model (live set, eligibility since '
            'registration, deadline interval) evaluated at every callback entry and API return; every failure is gated for '
            'determinism, minimised and written as a replay plan.  Sampling, not proof.',
            'Trusted: the simulated poll/clock semantics (DESIGN.md appendix B), the harness model, clang ASan/UBSan.',
            'DESIGN.md section 4 C04'),
    'C05': ('exploration',
            'deterministic simulation: same runs as C04; dispatch-order, progress, blocking-bound and status oracles at callback entry, '
            'poll entry and events_run/events_spin return; bounded-liveness drain after faults stop',
            'Seeded search over programs x schedules; order oracles at each callback entry, blocking bound on every poll argument, '
            'progress/status oracles at each return, and a fault-free drain in which every live registration must fire within a '
            'bounded number of loop calls.',
            'Trusted: as C04; the interrupt clause is interpreted as in DESIGN.md (a signal-time request may be honoured one callback late).',
            'DESIGN.md section 4 C05'),
    'C06': ('exploration',
            'deterministic simulation: real network_read/write/connect/accept over a simulated socket layer with scripted peers, '
            'partial transfers, EAGAIN/EINTR runs, EOF/RST/hard errors at chosen byte offsets, cancels at random steps; byte-exact '
            'comparison with the kernel log',
            'Seeded search over request shapes x kernel answer sequences; the ground truth is the simulated kernel\'s own log of bytes '
            'handed to recv / accepted from send; connect is checked as refinement of observed actions.',
            'Trusted: simulated socket semantics (appendix B).',
            'DESIGN.md section 4 C06'),
    'C07': ('exploration',
            'deterministic simulation: real netbuf reader/writer over the simulated socket layer; wait/peek/consume/cancel and '
            'write/reserve/consume histories crossed with segmentation, would-block, EOF and failure positions; stream-prefix oracles',
            'Seeded search over histories x network schedules with a byte-stream reference model.',
            'Trusted: simulated socket semantics (appendix B).',
            'DESIGN.md section 4 C07'),
    'C08': ('exploration',
            'deterministic simulation: real HTTP client stack against a scripted hostile server (structured mutations of valid '
            'responses, segmentation down to single bytes, placement against the reader-buffer boundary, EOF anywhere) under ASan/UBSan',
            'Seeded search over server byte streams x segmentations; oracles: no crash/sanitizer report, exactly one callback, status and '
            'body-limit ranges, no leak, bounded termination after server EOF.',
            'Trusted: simulated socket semantics; ASan/UBSan as the out-of-bounds detector.',
            'DESIGN.md section 4 C08'),
    'C09': ('exploration',
            'deterministic simulation: generator of well-formed HTTP/1.x responses = oracle; real client stack over a fault-free but '
            'arbitrarily segmented simulated transport; exact comparison of status, headers, body and request bytes',
            'Seeded search over well-formed responses x segmentations with the generator as exact oracle.',
            'Trusted: the generator\'s notion of well-formed (canonical framing headers only, as the statement says).',
            'DESIGN.md section 4 C09'),
    'C10': ('exploration',
            'deterministic simulation (narrow): real crypto_dh over libcrypto BN with the entropy source simulated; the same (priv, peer) '
            'is run under several blinding values and must agree; entropy and allocation failures injected; values checked against '
            'independent big-integer arithmetic',
            'The blinding-independence and failure-path clauses depend on a simulated seam; the exact-value clauses are sampled on the '
            'same runs against Python big integers (pure-function sampling, claimed as such).',
            'Trusted: libcrypto BN for the implementation, Python int pow() for the oracle.',
            'DESIGN.md section 4 C10'),
    'C11': ('exploration',
            'deterministic simulation: real crypto_entropy.c + entropy.c + sha256.c over a simulated /dev/urandom (content, short reads, '
            'EOF, EINTR, open/read/close failures at instantiation and at any reseed) against an independent HMAC_DRBG on OpenSSL HMAC',
            'Seeded search over request-length histories x device fault sequences; output and consumed entropy must equal the reference.',
            'Trusted: OpenSSL HMAC-SHA256 for the reference model; build without RDRAND mixing.',
            'DESIGN.md section 4 C11'),
    'C12': ('exploration',
            'deterministic simulation of the allocator environment: real elasticarray/elasticqueue/seqptrmap/mpool against trivial '
            'models, op by op, under moving realloc, refused shrinks, pattern-filled memory and ASan',
            'Seeded search over operation histories x allocator behaviours with op-by-op model comparison.',
            'Trusted: the trivial reference models; ASan for out-of-bounds.',
            'DESIGN.md section 4 C12'),
    'C13': ('exploration',
            'deterministic simulation of the allocator environment: real ptrheap/timerqueue against a multiset model with handle tracking '
            '(plus in situ under the evloop engine)',
            'Seeded search over histories with duplicate keys; handle operations use the model\'s recorded position.',
            'Trusted: the multiset model.',
            'DESIGN.md section 4 C13'),
    'C14': ('fault_enumeration',
            'deterministic simulation with enumerated allocation failure: for each sampled plan every library allocation of every step is '
            'failed once singly and once persistently; return values, model equality, retry, leak accounting after release',
            'Failure points are enumerated per sampled history (histories are sampled) across the containers, event loop, network I/O, '
            'netbuf and HTTP engines.',
            'Trusted: --wrap allocator accounting (library context vs harness context), ownership-by-observation rule.',
            'DESIGN.md section 4 C14'),
    'C19': ('exploration',
            'deterministic simulation (narrow): real aws_sign.c over a simulated wall clock that advances on every read and sits at '
            'second/day/year boundaries, with time() and allocation failures; independent SigV4 on OpenSSL re-derives every signature',
            'The timestamp/scope consistency clause depends on the simulated clock; the for-every-input clauses are sampled.',
            'Trusted: OpenSSL HMAC/SHA-256 for the reference.',
            'DESIGN.md section 4 C19'),
    'C20': ('exploration',
            'deterministic simulation (narrow): the allocator seam (free/realloc hook and OpenSSL CRYPTO_set_mem_functions) scans every '
            'released block for the run\'s secrets; error paths forced by enumerated allocation/entropy/stream failures',
            'Observation point of the statement (the allocator) is owned by the simulator; error paths are reached by fault injection.',
            'Trusted: secret patterns with >= 16 random bytes (no chance matches); libcrypto internals scanned too.',
            'DESIGN.md section 4 C20'),
}

NA = {
    'C01': 'pure function of (message, key, partition): no schedule, clock, I/O, allocation or fault to simulate; differential testing is the right tool (DESIGN.md section 5)',
    'C02': 'pure function of (key, nonce, data, partition); the only allocation is the stream object; nothing for a scheduler or fault injector to act on (DESIGN.md section 5)',
    'C03': 'configuration x input differential equivalence; feature detection is a static per-process choice, not a scheduled event (DESIGN.md section 5)',
    'C15': 'memory safety of pure parsers on arbitrary bytes is a fuzzing / bounded-model-checking question, no seam involved (DESIGN.md section 5)',
    'C16': 'pure input/output relation of numeric parsing; no time, I/O, allocation or interleaving (DESIGN.md section 5)',
    'C17': 'codec inverses and standards conformance are pure functions (DESIGN.md section 5)',
    'C18': 'getopt is a deterministic function of argv, option table and reset history; nothing for faults or schedules to act on (DESIGN.md section 5)',
}


def implemented(prop):
    return all(os.path.exists(os.path.join(VERIF, h)) for e in PROP_ENGINES[prop] for h in ENGINES[e]['harness'])


def main():
    checks = []
    na = [{'property_id': k, 'reason': v} for k, v in sorted(NA.items())]
    for prop in sorted(CLAIMS):
        cat, tech, text, note, ref = CLAIMS[prop]
        if not implemented(prop) and prop != 'C14':
            na.append({'property_id': prop, 'reason': 'claimed in DESIGN.md but its engine is not built yet in this round; no check registered'})
            continue
        if prop == 'C14' and not any(os.path.exists(os.path.join(VERIF, h)) for e in PROP_ENGINES[prop] for h in ENGINES[e]['harness']):
            continue
        checks.append({
            'property_id': prop,
            'quick_cmd': 'python3 driver/verif.py check %s --tier quick' % prop,
            'thorough_cmd': 'python3 driver/verif.py check %s --tier thorough' % prop,
            'evidence_file': 'evidence/%s.json' % prop,
            'replay_cmd_template': 'python3 driver/verif.py replay {path}',
            'engine': '+'.join(PROP_ENGINES[prop]),
            'level_claimed': {'category': cat, 'text': text, 'design_ref': ref},
            'level_note': note,
            'technique': tech,
        })
    engines = []
    for name, e in sorted(ENGINES.items()):
        if all(os.path.exists(os.path.join(VERIF, h)) for h in e['harness']):
            engines.append({'name': name, 'path': e['harness'][0], 'serves_properties': e['props'],
                            'kind_free_text': 'deterministic simulator engine; real: %s; stub: %s' % (e['real'], e['stub'])})
    m = {
        'version': 1,
        'setup_cmd': 'python3 driver/verif.py setup',
        'hooks': {
            'guard': 'LIBCPERCIVA_VERIF',
            'enable': 'no source hooks: every seam is a link-time wrapper (-Wl,--wrap=...) or a public OpenSSL API; engines compile /repo sources directly',
            'baseline_off_cmd': 'make -C /repo && make -C /repo test',
            'source_commits': [],
            'add_only': True,
        },
        'engines': engines,
        'checks': checks,
        'not_applicable': sorted(na, key=lambda x: x['property_id']),
        'notes': 'Deterministic simulation with fault injection; see DESIGN.md.  Known findings: known-findings.txt.',
    }
    with open(os.path.join(VERIF, 'MANIFEST.json'), 'w') as f:
        json.dump(m, f, indent=1)
        f.write('\n')
    print('claimed:', [c['property_id'] for c in checks])


if __name__ == '__main__':
    main()
