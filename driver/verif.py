#!/usr/bin/env python3
"""Driver: build engines from /repo's working tree, run seeded batches, gate,
minimise and replay violations, write evidence.  Python stdlib only."""
import array
import concurrent.futures as cf
import hashlib
import json
import os
import re
import shutil
import subprocess
import sys
import time

HERE = os.path.dirname(os.path.abspath(__file__))
VERIF = os.path.dirname(HERE)
sys.path.insert(0, HERE)
from engines import ENGINES, PROP_ENGINES  # noqa: E402

REPO = os.environ.get('VERIF_REPO', '/repo')
BUILD = os.path.join(VERIF, 'build')
EVID_DIR = os.environ.get('VERIF_EVIDENCE_DIR', os.path.join(VERIF, 'evidence'))
REPLAY_DIR = os.environ.get('VERIF_REPLAY_DIR', os.path.join(VERIF, 'replays'))
NWORK = int(os.environ.get('VERIF_WORKERS', '16'))
CC = 'clang'
SAN = ['-fsanitize=address,undefined', '-fno-sanitize=nonnull-attribute,pointer-overflow',
       '-fno-sanitize-recover=undefined']
BASEFLAGS = ['-g', '-O1', '-fno-omit-frame-pointer', '-U_FORTIFY_SOURCE', '-D_FORTIFY_SOURCE=0',
             '-D_POSIX_C_SOURCE=200809L', '-D_XOPEN_SOURCE=700', '-Wno-deprecated-declarations',
             '-DAPISUPPORT_CONFIG_FILE="%s/sim/empty_config.h"' % VERIF]


def engine_flags(e):
    return BASEFLAGS + ['-DCPUSUPPORT_CONFIG_FILE="%s/%s"' % (VERIF, e.get('cpuconfig', 'sim/empty_config.h'))] + e.get('cflags', [])

# runs per (tier, engine, property); C14 counts base plans (each is enumerated)
RUNS = {
    'quick': {'evloop': 60000, 'netio': 40000, 'http': 30000, 'containers': 60000,
              'entropy': 1500, 'secrets': 20000, 'secrets_hw': 10000, 'secrets_o2': 10000},
    'thorough': {'evloop': 2000000, 'netio': 1500000, 'http': 1000000, 'containers': 3000000,
                 'entropy': 60000, 'secrets': 1000000, 'secrets_hw': 300000, 'secrets_o2': 300000},
}
RUNS_C14 = {
    'quick': {'evloop': 700, 'netio': 400, 'http': 200, 'containers': 400},
    'thorough': {'evloop': 14000, 'netio': 8000, 'http': 4000, 'containers': 8000},
}


def log(*a):
    print(*a, file=sys.stderr, flush=True)


# ---------------------------------------------------------------- build
def file_hash(h, path):
    try:
        with open(path, 'rb') as f:
            h.update(path.encode() + b'\0' + f.read())
    except OSError:
        h.update(path.encode() + b'\0<missing>')


def engine_key(name, san=True):
    e = ENGINES[name]
    h = hashlib.sha256()
    h.update(repr((engine_flags(e), SAN if san else [], e['wrap'], e['libs'])).encode())
    for s in e['repo']:
        file_hash(h, os.path.join(REPO, s))
    for d in e['inc']:
        dd = os.path.join(REPO, d)
        try:
            for fn in sorted(os.listdir(dd)):
                if fn.endswith('.h'):
                    file_hash(h, os.path.join(dd, fn))
        except OSError:
            pass
    for s in e['harness'] + e['sim']:
        file_hash(h, os.path.join(VERIF, s))
    for fn in sorted(os.listdir(os.path.join(VERIF, 'sim'))) + sorted(os.listdir(os.path.join(VERIF, 'models'))):
        if fn.endswith('.h'):
            p = os.path.join(VERIF, 'sim', fn)
            if not os.path.exists(p):
                p = os.path.join(VERIF, 'models', fn)
            file_hash(h, p)
    return h.hexdigest()[:16]


def repo_tree_hash():
    h = hashlib.sha256()
    for name in sorted(ENGINES):
        h.update(engine_key(name).encode())
    return h.hexdigest()[:12]


def engine_exists(name):
    return all(os.path.exists(os.path.join(VERIF, h)) for h in ENGINES[name]['harness'])


COVFLAGS = ['-fprofile-instr-generate', '-fcoverage-mapping', '-DSIM_COVERAGE']


def build_engine(name, san=True, cov=False):
    """Build (if needed) and return the path of the engine binary for REPO's current tree."""
    e = ENGINES[name]
    san = san and not e.get('nosan') and not cov
    key = engine_key(name, san)
    d = os.path.join(BUILD, '%s-%s%s' % (name, key, '-cov' if cov else '' if san else '-plain'))
    exe = os.path.join(d, name)
    if os.path.exists(exe):
        try:
            os.utime(d, None)       # mark as in use: prune_build removes the least recently used directories
        except OSError:
            pass
        return exe
    tmp = d + '.tmp%d' % os.getpid()
    shutil.rmtree(tmp, ignore_errors=True)
    os.makedirs(tmp)
    flags = engine_flags(e) + (SAN if san else []) + (COVFLAGS if cov else [])
    inc = ['-I' + os.path.join(REPO, i) for i in e['inc']] + ['-I' + os.path.join(VERIF, 'sim'),
                                                                 '-I' + os.path.join(VERIF, 'models')]
    jobs = []
    for s in e['repo']:
        jobs.append((os.path.join(REPO, s), os.path.join(tmp, 'r_' + s.replace('/', '_')[:-2] + '.o'), ['-w']))
    for s in e['harness'] + e['sim']:
        jobs.append((os.path.join(VERIF, s), os.path.join(tmp, 'v_' + s.replace('/', '_')[:-2] + '.o'),
                     ['-Wall', '-Wno-unused-function']))

    def cc(job):
        src, obj, extra = job
        r = subprocess.run([CC] + flags + extra + inc + ['-c', src, '-o', obj], capture_output=True, text=True)
        return (src, r.returncode, r.stderr)

    with cf.ThreadPoolExecutor(max_workers=NWORK) as ex:
        res = list(ex.map(cc, jobs))
    bad = [(s, err) for s, rc, err in res if rc != 0]
    if bad:
        for s, err in bad:
            log('compile failed: %s\n%s' % (s, err[-3000:]))
        shutil.rmtree(tmp, ignore_errors=True)
        raise SystemExit(2)
    for s, rc, err in res:
        if err.strip() and '/verif/' in s:
            log(err[-2000:])
    wraps = ','.join('--wrap=' + w for w in e['wrap'])
    r = subprocess.run([CC] + flags + [j[1] for j in jobs] + ['-Wl,' + wraps] + e['libs'] +
                       ['-o', os.path.join(tmp, name)], capture_output=True, text=True)
    if r.returncode != 0:
        log('link failed for %s:\n%s' % (name, r.stderr[-3000:]))
        shutil.rmtree(tmp, ignore_errors=True)
        raise SystemExit(2)
    # Seam integrity: no repo object may reference a fortified (_chk) variant of a wrapped call.
    nm = subprocess.run('nm -u %s/r_*.o' % tmp, shell=True, capture_output=True, text=True).stdout
    chk = sorted(set(re.findall(r'\b__(\w+)_chk\b', nm)))
    if chk:
        log('seam check failed: fortified calls bypass --wrap: %s' % chk)
        raise SystemExit(2)
    try:
        os.rename(tmp, d)
    except OSError:
        shutil.rmtree(tmp, ignore_errors=True)   # somebody else built it meanwhile
    return exe


# ---------------------------------------------------------------- coverage of the repository's code (reach)
def coverage(nseeds):
    """Line/branch coverage of the repo sources each engine compiles, under the same generators as the checks.
    Not a check: a measure of reach, written to coverage/ (summary.json, uncovered/<file>.txt)."""
    covdir = os.path.join(VERIF, 'coverage')
    raw = os.path.join(BUILD, 'covraw')
    shutil.rmtree(raw, ignore_errors=True)
    os.makedirs(raw)
    shutil.rmtree(os.path.join(covdir, 'uncovered'), ignore_errors=True)
    os.makedirs(os.path.join(covdir, 'uncovered'))
    summary = {}
    jobs = []
    for prop, engs in sorted(PROP_ENGINES.items()):
        for eng in engs:
            if ENGINES[eng].get('nosan') or eng == 'secrets_hw' and False:
                continue
            jobs.append((prop, eng))
    exes = {eng: build_engine(eng, cov=True) for eng in sorted(set(e for _, e in jobs))}

    def run(job):
        prop, eng = job
        n = max(20, nseeds // 40) if prop == 'C14' else (max(50, nseeds // 10) if eng == 'entropy' else nseeds)
        env = dict(os.environ, LLVM_PROFILE_FILE=os.path.join(raw, 'zygote-%s-%s.profraw' % (eng, prop)),
                   SIM_COV_PREFIX=os.path.join(raw, '%s-%s' % (eng, prop)), ASAN_OPTIONS='symbolize=0')
        subprocess.run([exes[eng], '--prop', prop, '--batch', '1', str(n), os.path.join(raw, 'b-%s-%s' % (eng, prop))],
                       env=env, capture_output=True, text=True, timeout=7200)
        return job

    with cf.ThreadPoolExecutor(max_workers=NWORK) as ex:
        list(ex.map(run, jobs))
    for eng, exe in exes.items():
        profs = [os.path.join(raw, f) for f in os.listdir(raw) if f.startswith(eng + '-') and f.endswith('.profraw')]
        if not profs:
            continue
        pd = os.path.join(raw, eng + '.profdata')
        lst = os.path.join(raw, eng + '.list')
        with open(lst, 'w') as f:
            f.write('\n'.join(profs) + '\n')
        subprocess.run(['llvm-profdata-14', 'merge', '-o', pd, '--input-files=' + lst, '--num-threads=8'], check=True)
        for f in profs:
            os.unlink(f)
        srcs = [os.path.join(REPO, s) for s in ENGINES[eng]['repo']]
        hdrs = []
        for d in ENGINES[eng]['inc']:
            dd = os.path.join(REPO, d)
            if d != '.' and os.path.isdir(dd):
                hdrs += [os.path.join(dd, f) for f in sorted(os.listdir(dd)) if f.endswith('.h')]
        r = subprocess.run(['llvm-cov-14', 'export', '-summary-only', '-instr-profile=' + pd, exe] + srcs + hdrs,
                           capture_output=True, text=True)
        try:
            data = json.loads(r.stdout)['data'][0]
        except Exception:
            log('llvm-cov export failed for', eng, r.stderr[-500:])
            continue
        for f in data['files']:
            rel = os.path.relpath(f['filename'], REPO)
            sm = f['summary']
            if sm['lines']['count'] == 0:
                continue
            summary.setdefault(eng, {})[rel] = {
                'lines': [sm['lines']['covered'], sm['lines']['count']],
                'branches': [sm['branches']['covered'], sm['branches']['count']],
                'functions': [sm['functions']['covered'], sm['functions']['count']]}
        sh = subprocess.run(['llvm-cov-14', 'show', '-instr-profile=' + pd, exe, '-show-line-counts-or-regions',
                             '-show-branches=count'] + srcs + hdrs, capture_output=True, text=True).stdout
        cur, out = None, {}
        for line in sh.splitlines():
            m = re.match(r'^(/\S+):$', line)
            if m:
                cur = os.path.relpath(m.group(1), REPO)
                continue
            m = re.match(r'^\s*(\d+)\|\s*0\|(.*)$', line)
            if m and cur:
                out.setdefault(cur, []).append('%5s: %s' % (m.group(1), m.group(2)))
            elif cur and re.search(r'Branch \(\d+:\d+\): \[(True: 0|.*False: 0)', line):
                out.setdefault(cur, []).append('       ' + line.strip())
        for rel, ls in out.items():
            fn = os.path.join(covdir, 'uncovered', '%s__%s.txt' % (eng, rel.replace('/', '_')))
            with open(fn, 'w') as f:
                f.write('# lines never executed / branch directions never taken in %s by engine %s (%d seeds per property)\n'
                        % (rel, eng, nseeds))
                f.write('\n'.join(ls) + '\n')
    with open(os.path.join(covdir, 'summary.json'), 'w') as f:
        json.dump({'seeds_per_property': nseeds, 'repo_tree': repo_tree_hash(), 'engines': summary}, f, indent=1, sort_keys=True)
    for eng in sorted(summary):
        for rel, v in sorted(summary[eng].items()):
            print('%-12s %-40s lines %4d/%-4d  branches %4d/%-4d' % (eng, rel, v['lines'][0], v['lines'][1],
                                                                     v['branches'][0], v['branches'][1]))
    return 0


# ---------------------------------------------------------------- running
P14 = int(
    'FFFFFFFFFFFFFFFFC90FDAA22168C234C4C6628B80DC1CD129024E088A67CC74020BBEA63B139B22514A08798E3404DD'
    'EF9519B3CD3A431B302B0A6DF25F14374FE1356D6D51C245E485B576625E7EC6F44C42E9A637ED6B0BFF5CB6F406B7ED'
    'EE386BFB5A899FA5AE9F24117C4B1FE649286651ECE45B3DC2007CB8A163BF0598DA48361C55D39A69163FA8FD24CF5F'
    '83655D23DCA3AD961C62F356208552BB9ED529077096966D670C354E4ABC9804F1746C08CA18217C32905E462E36CE3B'
    'E39E772C180E86039B2783A2EC07A28FB5C55DF06F4C52C9DE2BCBF6955817183995497CEA956AE515D2261898FA0510'
    '15728E5A8AACAA68FFFFFFFFFFFFFFFF', 16)   # RFC 3526 group 14, typed in independently of crypto_dh_group14.c


def post_check(exe, prop, o):
    """Oracles evaluated outside the process: C10 exact values with Python big integers."""
    if o is None or o.get('kind') != 0 or prop != 'C10' or not o.get('out'):
        return o
    for rec in o['out'].split(';'):
        f = rec.split()
        if len(f) != 5:
            continue
        kind, priv, peer, out, rc = f[0], int(f[1], 16), int(f[2], 16), f[3], int(f[4])
        bad = None
        if kind in ('P', 'K'):
            if out == '-':
                continue        # a failed call: the engine judges whether failing was legitimate
            want = pow(peer, (1 << 258) + priv, P14)
            if int(out, 16) != want or len(out) != 512:
                bad = ('C10.value', 'value', '%s: result differs from %s^(2^258+x) mod p for x=%064x' % (
                    'public value' if kind == 'P' else 'shared key', '2' if kind == 'P' else 'y', priv))
        elif kind == 'S':
            if (rc == 0) != (peer < P14):
                bad = ('C10.sanity', 'sanity-py', 'sanity check %s a value that is %s p' % (
                    'accepted' if rc == 0 else 'rejected', 'below' if peer < P14 else 'not below'))
        if bad:
            o = dict(o, kind=1, oracle=bad[0], sig=bad[1], msg=bad[2], hash='')
            return o
    return o


def run_json(exe, args, timeout=120):
    r = subprocess.run([exe] + args, capture_output=True, text=True, timeout=timeout)
    out = None
    for line in r.stdout.splitlines():
        if line.startswith('{'):
            out = json.loads(line)
    prop = args[args.index('--prop') + 1] if '--prop' in args else ''
    out = post_check(exe, prop, out)
    return out, r.stderr, r.returncode


def gen_plan(exe, seed, prop):
    return subprocess.run([exe, '--prop', prop, '--gen', str(seed)], capture_output=True, text=True).stdout


def run_batch(exe, prop, first, count, tag, nworkers=None):
    """Split [first, first+count) over NWORK engine processes; return (violations, summary, hashes in seed order)."""
    os.makedirs(os.path.join(BUILD, 'out'), exist_ok=True)
    nw = max(1, min(nworkers or NWORK, count // 50 if count >= 50 else 1))
    per = (count + nw - 1) // nw
    procs = []
    for w in range(nw):
        f = first + w * per
        c = min(per, first + count - f)
        if c <= 0:
            break
        prefix = os.path.join(BUILD, 'out', '%s-%d-%d' % (tag, os.getpid(), w))
        # batches do not symbolise sanitizer reports (the signature does not need it; replays do symbolise)
        env = dict(os.environ, ASAN_OPTIONS='symbolize=0', UBSAN_OPTIONS='symbolize=0:print_stacktrace=0')
        p = subprocess.Popen([exe, '--prop', prop, '--batch', str(f), str(c), prefix],
                             stdout=subprocess.DEVNULL, stderr=subprocess.PIPE, text=True, env=env)
        procs.append((p, prefix))
    viol, summ = [], None
    summ_extra = {}
    allh = array.array('Q')
    for p, prefix in procs:
        _, err = p.communicate()
        if p.returncode != 0:
            log('batch worker failed (%s): %s' % (p.returncode, err[-2000:]))
            raise SystemExit(2)
        with open(prefix + '.jsonl') as f:
            for line in f:
                o = json.loads(line)
                if o['t'] == 'summary':
                    if summ is None:
                        summ = o
                    else:
                        for k, v in o.items():
                            if k == 'cnt':
                                for ck, cv in v.items():
                                    summ['cnt'][ck] = summ['cnt'].get(ck, 0) + cv
                            elif k == 'wall_s':
                                summ[k] = max(summ[k], v)
                            elif isinstance(v, (int, float)) and k not in ('first', 'count', 't'):
                                summ[k] += v
                else:
                    viol.append(o)
        if prop == 'C10' and os.path.exists(prefix + '.out'):
            with open(prefix + '.out') as f:
                for line in f:
                    sd, _, outs = line.rstrip('\n').partition('\t')
                    o = post_check(exe, prop, {'kind': 0, 'out': outs, 'seed': int(sd), 'af': [-1, -1, 0], 't': 'v'})
                    if o['kind'] != 0:
                        viol.append(o)
                        summ_extra['py_violations'] = summ_extra.get('py_violations', 0) + 1
                    summ_extra['py_checked'] = summ_extra.get('py_checked', 0) + 1
        with open(prefix + '.hash', 'rb') as f:
            data = f.read()
            a = array.array('Q')
            a.frombytes(data[:len(data) // 8 * 8])
            allh.extend(a)
        for suf in ('.jsonl', '.hash', '.err', '.out'):
            try:
                os.unlink(prefix + suf)
            except OSError:
                pass
    summ.update(summ_extra)
    return viol, summ, allh


def distinct_counts(allh):
    s = sorted(allh)
    distinct = 0
    nontriv = 0
    prev = None
    for h in s:
        if h != prev:
            distinct += 1
            if h & 1:
                nontriv += 1
            prev = h
    return distinct, nontriv


# ---------------------------------------------------------------- plan text handling / minimiser
class Line:
    __slots__ = ('kind', 'name', 'args', 'toks')

    def __init__(self, kind, name, args, toks):
        self.kind, self.name, self.args, self.toks = kind, name, args, toks

    def copy(self):
        return Line(self.kind, self.name, list(self.args), [list(t) for t in self.toks])

    def text(self):
        s = '%s %s' % (self.kind, self.name)
        if self.args:
            s += ' ' + ' '.join(str(a) for a in self.args)
        if self.toks:
            s += ' | ' + ' '.join(','.join(str(v) for v in t) for t in self.toks)
        return s


def parse_plan(text):
    lines = []
    for raw in text.splitlines():
        raw = raw.strip()
        if not raw or raw.startswith('#'):
            continue
        head, _, tape = raw.partition('|')
        w = head.split()
        toks = [[int(x) for x in t.split(',') if x != ''] for t in tape.split()]
        lines.append(Line(w[0], w[1] if len(w) > 1 else '', [int(x) for x in w[2:]], toks))
    return lines


def plan_text(lines, af=None, af_line=None):
    body = [l for l in lines if not (l.kind == 'fault' and l.name == 'allocfail')]
    out = [l.text() for l in body]
    if af is not None and af[0] >= 0:
        j = af[0]
        if af_line is not None:
            steps = [l for l in body if l.kind == 'step']
            j = steps.index(af_line) if af_line in steps else len(steps)
        out.append('fault allocfail %d %d %d' % (j, af[1], af[2]))
    return '\n'.join(out) + '\n'


class Minimiser:
    def __init__(self, exe, prop, oracle, sig, af, workdir, budget=350):
        self.exe, self.prop, self.oracle, self.sig, self.af = exe, prop, oracle, sig, af
        self.workdir, self.budget, self.execs = workdir, budget, 0
        self.af_line = None
        self.deadline = time.time() + 90      # wall-clock cap: slow failing runs get a coarser minimum

    def fails(self, lines):
        if self.execs >= self.budget or time.time() > self.deadline:
            return False
        if self.af_line is not None and self.af_line not in lines:
            return False
        self.execs += 1
        path = os.path.join(self.workdir, 'cand-%d.plan' % os.getpid())
        with open(path, 'w') as f:
            f.write(plan_text(lines, self.af, self.af_line))
        try:
            o, _, _ = run_json(self.exe, ['--prop', self.prop, '--run', path], timeout=60)
        except subprocess.TimeoutExpired:
            return False
        return o is not None and o['kind'] in (1, 3, 4) and o['oracle'] == self.oracle and o['sig'] == self.sig

    def minimise(self, lines):
        if self.af is not None and self.af[0] >= 0:
            steps = [l for l in lines if l.kind == 'step']
            if self.af[0] < len(steps):
                self.af_line = steps[self.af[0]]
        # 1. ddmin over removable lines (steps and action lists)
        def removable(l):
            return l.kind != 'knob' and l is not self.af_line
        n = 2
        while True:
            idx = [i for i, l in enumerate(lines) if removable(l)]
            if not idx or self.execs >= self.budget:
                break
            n = min(n, len(idx))
            chunk = (len(idx) + n - 1) // n
            reduced = False
            for c in range(0, len(idx), chunk):
                drop = set(idx[c:c + chunk])
                cand = [l for i, l in enumerate(lines) if i not in drop]
                if self.fails(cand):
                    lines = cand
                    n = max(n - 1, 2)
                    reduced = True
                    break
            if not reduced:
                if chunk == 1:
                    break
                n = min(n * 2, len(idx))
        # 2. drop tokens
        for l in list(lines):
            i = 0
            while i < len(l.toks) and self.execs < self.budget:
                saved = l.toks
                l.toks = saved[:i] + saved[i + 1:]
                if self.fails(lines):
                    continue
                l.toks = saved
                i += 1
        # 3. shrink numbers toward zero
        for l in lines:
            if l.kind == 'knob' and l.name in ('nfd', 'scenario', 'hostile'):
                continue
            for k in range(len(l.args)):
                self._shrink(lines, l.args, k)
            for t in l.toks:
                for k in range(len(t)):
                    if l.kind == 'al' and k == 0:
                        continue    # opcode
                    self._shrink(lines, t, k)
        return lines

    def _shrink(self, lines, vec, k):
        v = vec[k]
        if v == 0 or self.execs >= self.budget:
            return
        for cand in (0, -1 if v < 0 else 1, v // 2):
            if cand == v or abs(cand) >= abs(v):
                continue
            vec[k] = cand
            if self.fails(lines):
                if cand != 0 and abs(cand) > 1:
                    self._shrink(lines, vec, k)
                return
            vec[k] = v


# ---------------------------------------------------------------- known findings
def load_findings():
    path = os.path.join(VERIF, 'known-findings.txt')
    out = []
    if not os.path.exists(path):
        return out
    for raw in open(path):
        raw = raw.strip()
        if not raw or raw.startswith('#'):
            continue
        m = re.match(r'(finding|fixed):\s*(.*)', raw)
        if not m:
            continue
        kind, rest = m.group(1), m.group(2)
        head, _, desc = rest.partition('::')
        kv = dict(x.split('=', 1) for x in head.split() if '=' in x)
        kv['kind'] = kind
        kv['desc'] = desc.strip()
        out.append(kv)
    return out


def finding_matches(f, prop, engine, oracle, sig):
    return (f['kind'] == 'finding' and f.get('property') == prop and
            f.get('engine') == ENGINES[engine].get('base', engine) and
            f.get('oracle') == oracle and f.get('sig', '') == sig)


# ---------------------------------------------------------------- check
def header_of(path):
    h = {}
    for raw in open(path):
        m = re.match(r'#\s*(\w[\w-]*):\s*(.*)', raw)
        if m:
            h[m.group(1)] = m.group(2).strip()
    return h


def replay_file(path, explain=True, quiet=False):
    h = header_of(path)
    engine, prop = h['engine'], h['property']
    exe = build_engine(engine)
    args = ['--prop', prop, '--run', path]
    o, err, rc = run_json(exe, args)
    if explain and not quiet:
        r = subprocess.run([exe, '--explain'] + args, capture_output=True, text=True)
        sys.stderr.write(r.stderr[-20000:])
    return o, h


def handle_violation(exe, engine, prop, v, tree):
    """Gate, minimise, write replay file.  Returns (path or None, status) where status in ok/nondet."""
    seed = v['seed']
    af = v.get('af', [-1, -1, 0])
    workdir = os.path.join(BUILD, 'out')
    os.makedirs(workdir, exist_ok=True)
    orig = gen_plan(exe, seed, prop)
    lines = parse_plan(orig)
    base = os.path.join(workdir, 'gate-%d.plan' % os.getpid())
    with open(base, 'w') as f:
        f.write(plan_text(lines, af))
    res = []
    for _ in range(2):
        o, _, _ = run_json(exe, ['--prop', prop, '--run', base])
        res.append((o['kind'], o['oracle'], o['sig'], o['hash'] if o['kind'] == 1 else ''))
    want = (v['kind'], v['oracle'], v['sig'], v['hash'] if v['kind'] == 1 else '')
    if v.get('hash', None) == '':
        res = [r[:3] + ('',) for r in res]
    if res[0] != res[1] or res[0] != want:
        log('GATE FAILED: seed %s af=%s: batch=%s replays=%s' % (seed, af, want, res))
        return None, 'nondet'
    m = Minimiser(exe, prop, v['oracle'], v['sig'], af, workdir, budget=(10 if v['kind'] == 4 else 350))
    mini = m.minimise([l.copy() for l in lines])
    os.makedirs(REPLAY_DIR, exist_ok=True)
    sigslug = re.sub(r'[^A-Za-z0-9]+', '-', v['sig'])[:40].strip('-')
    path = os.path.join(REPLAY_DIR, '%s-%s-%s-%d.plan' % (prop, v['oracle'].split('.', 1)[-1], sigslug, seed))
    with open(path, 'w') as f:
        f.write('# VERIF replay file: python3 driver/verif.py replay <this file>\n')
        f.write('# property: %s\n# engine: %s\n# oracle: %s\n# sig: %s\n# seed: %d\n# repo-tree: %s\n' %
                (prop, engine, v['oracle'], v['sig'], seed, tree))
        f.write('# message: %s\n# minimiser-executions: %d\n' % (v['msg'].replace('\n', ' '), m.execs))
        f.write(plan_text(mini, af, m.af_line))
        f.write('# --- original plan (seed %d) ---\n' % seed)
        for l in plan_text(lines, af).splitlines():
            f.write('#   ' + l + '\n')
    o, _ = replay_file(path, explain=False)
    if o is None or o['oracle'] != v['oracle'] or o['sig'] != v['sig']:
        log('GATE FAILED: minimised replay of seed %s does not reproduce (%s)' % (seed, o))
        return None, 'nondet'
    return path, 'ok'


def sample_runs(exe, prop, first, n=2):
    out = []
    for s in range(first, first + n):
        plan = gen_plan(exe, s, prop)
        r = subprocess.run([exe, '--prop', prop, '--explain', '--seed', str(s)], capture_output=True, text=True)
        tr = r.stderr.splitlines()
        out.append({'seed': s, 'plan': plan.splitlines()[:60], 'trace_head': tr[:60], 'trace_lines': len(tr)})
    return out


def check(prop, tier):
    t0 = time.time()
    seed = int(os.environ.get('VERIF_SEED', '1'))
    first = (seed << 32) + 1
    tree = repo_tree_hash()
    findings = load_findings()
    engines = [e for e in PROP_ENGINES[prop] if engine_exists(e)]
    new_viol, known_hits = [], {}
    cov = {'engines': {}, 'faults_fired': {}, 'probes': {}}
    total_runs = total_nontriv = total_distinct = 0
    sim_ns = 0
    status = 0
    samples = []
    printed_known = set()
    for engine in engines:
        exe = build_engine(engine)
        base_engine = ENGINES[engine].get('base', engine)   # build variants share findings and run tables with their base
        # 1. replay stored witnesses of known findings
        for f in findings:
            if f['kind'] != 'finding' or f.get('property') != prop or f.get('engine') != base_engine:
                continue
            if engine != base_engine and (f['oracle'], f.get('sig', '')) in printed_known:
                continue
            wpath = os.path.join(VERIF, f['witness'])
            o, _ = replay_file(wpath, explain=False)
            if o is not None and o['kind'] in (1, 3, 4) and o['oracle'] == f['oracle'] and o['sig'] == f.get('sig', ''):
                print('KNOWN-FINDING: property=%s %s [%s %s] witness=%s' % (prop, f['desc'], f['oracle'], f.get('sig', ''), f['witness']))
                printed_known.add((f['oracle'], f.get('sig', '')))
            else:
                log('note: known finding no longer reproduces: %s (%s)' % (f['desc'], o and o['oracle']))
        table = RUNS_C14 if prop == 'C14' else RUNS
        if engine in table[tier]:
            count = table[tier][engine]
        else:
            count = max(200, int(table[tier][base_engine] * ENGINES[engine].get('scale', 0.25)))
        count = int(count * float(os.environ.get('VERIF_SCALE', '1')))
        viol, summ, allh = run_batch(exe, prop, first, count, '%s-%s' % (prop, engine))
        d, nt = distinct_counts(allh)
        total_runs += summ['runs']
        total_distinct += d
        total_nontriv += nt
        sim_ns += summ['sim_ns']
        cov['engines'][engine] = {
            'base_seeds': count, 'runs': summ['runs'], 'held': summ['held'], 'violations': summ['viol'],
            'crashes': summ['crash'], 'hangs': summ['hang'], 'internal': summ['internal'],
            'alloc_failure_points_enumerated': summ.get('af_points', 0),
            'distinct_traces': d, 'distinct_nontrivial_traces': nt,
            'other_property_oracle_hits_ignored': summ['foreign'],
            'real_components': ENGINES[engine]['real'], 'stubbed_components': ENGINES[engine]['stub'],
        }
        if 'py_checked' in summ:
            cov['engines'][engine]['runs_checked_by_python_bigint_oracle'] = summ['py_checked']
        if summ.get('c14_skipped'):
            cov['engines'][engine]['base_plans_skipped_other_property_violated'] = summ['c14_skipped']
        for k, v in summ['cnt'].items():
            (cov['faults_fired'] if k.startswith('fault_') else cov['probes'])['%s.%s' % (engine, k)] = v
        if summ['internal']:
            log('INTERNAL harness failures: %d' % summ['internal'])
            for v in viol:
                if v['kind'] == 2:
                    log('  seed %s: %s' % (v['seed'], v['msg']))
                    break
            status = 2
        groups = {}
        for v in viol:
            if v['kind'] not in (1, 3, 4):
                continue
            key = (v['oracle'], v['sig'])
            if any(finding_matches(f, prop, engine, *key) for f in findings):
                known_hits[key] = known_hits.get(key, 0) + 1
                continue
            groups.setdefault(key, []).append(v)
        for key in sorted(groups, key=lambda k: groups[k][0]['seed'])[:4]:
            v = sorted(groups[key], key=lambda x: (x['seed'], x['af']))[0]
            path, st = handle_violation(exe, engine, prop, v, tree)
            if st != 'ok':
                status = 2
                continue
            new_viol.append((v, path, len(groups[key])))
            print('VIOLATION property=%s replay=%s' % (prop, path))
            print('  oracle=%s sig=%s seed=%d occurrences=%d: %s' % (v['oracle'], v['sig'], v['seed'], len(groups[key]), v['msg']))
        if len(groups) > 4:
            log('(%d further violation classes not minimised)' % (len(groups) - 4))
        if not samples:
            samples = sample_runs(exe, prop, first, 2)
    wall = time.time() - t0
    level = 'fault_enumeration' if prop == 'C14' else 'exploration'
    rules = {
        'exploration': 'cases are plans generated from consecutive seeds (VERIF_SEED<<32 + i) by the engine; one case = one plan executed '
                       'in a fresh forked process.  distinct = distinct 64-bit hashes of the event trace (API calls, callbacks, '
                       'syscalls+answers); non-trivial = the engine-specific rule in DESIGN.md section 3.7 (enough callbacks/'
                       'operations and at least one fault fired or action taken inside a callback) evaluated per run',
        'fault_enumeration': 'for each generated base plan every library-context allocation of every step is failed once singly and once '
                             'persistently (steps with more than 64 allocations: first 48, a stride of 16 and the last); '
                             'evaluations counts all runs including base runs; distinct as for exploration',
    }
    ev = {
        'property_id': prop, 'tier': tier, 'seed': seed, 'level': level,
        'coverage': {
            'evaluations': total_runs, 'distinct_nontrivial': total_nontriv, 'distinct_traces': total_distinct,
            'rule': rules[level], 'samples': samples,
            'runs_per_hour': int(total_runs / wall * 3600) if wall > 0 else 0,
            'simulated_time_s': sim_ns / 1e9,
            'faults_fired': cov['faults_fired'], 'probes': cov['probes'], 'engines': cov['engines'],
            'known_finding_hits': {'%s %s' % k: v for k, v in known_hits.items()},
            'repo_tree': tree, 'exhaustive': False,
        },
        'assumptions': [
            'the simulated kernel/allocator/peers follow the semantics written down in DESIGN.md appendix B',
            'sampling: a clean batch is evidence, not proof',
            'sanitizers: clang ASan+UBSan (nonnull-attribute, pointer-overflow excluded, see DESIGN.md 3.4)',
        ],
        'wall_s': round(wall, 2), 'violations': len(new_viol),
    }
    os.makedirs(EVID_DIR, exist_ok=True)
    with open(os.path.join(EVID_DIR, prop + '.json'), 'w') as f:
        json.dump(ev, f, indent=1)
    log('%s %s: %d runs, %d distinct traces (%d non-trivial), %.1fs, %d new violation classes, known hits %s' %
        (prop, tier, total_runs, total_distinct, total_nontriv, wall, len(new_viol), dict(known_hits)))
    if new_viol:
        return 1
    return status


def mutant(patch, props):
    """Apply a patch to a scratch copy of /repo and run the quick checks of the given properties against it."""
    import tempfile
    scratch = tempfile.mkdtemp(prefix='vmut-', dir='/tmp')
    try:
        subprocess.run(['rsync', '-a', '--exclude', '.git', '--exclude', '*.o', '--exclude', '*.a', '--exclude', 'tests-output',
                        '/repo/', scratch + '/repo/'], check=True)
        r = subprocess.run(['patch', '-p1', '-s', '-d', scratch + '/repo', '-i', os.path.abspath(patch)], capture_output=True, text=True)
        if r.returncode != 0:
            print('PATCH DID NOT APPLY: %s' % (r.stdout + r.stderr)[-500:])
            return 2
        env = dict(os.environ, VERIF_REPO=scratch + '/repo', VERIF_EVIDENCE_DIR=scratch + '/evidence',
                   VERIF_REPLAY_DIR=scratch + '/replays')
        caught = []
        for prop in props:
            t0 = time.time()
            r = subprocess.run([sys.executable, os.path.abspath(__file__), 'check', prop, '--tier',
                                os.environ.get('VERIF_TIER', 'quick')], env=env, capture_output=True, text=True)
            v = [l for l in r.stdout.splitlines() if l.startswith('VIOLATION') or l.startswith('  oracle=')]
            print('%s: exit=%d %.0fs %s' % (prop, r.returncode, time.time() - t0, ' | '.join(v)[:600]))
            if r.returncode not in (0, 1):
                print(r.stderr[-1500:])
            if r.returncode == 1 and any(l.startswith('VIOLATION property=%s ' % prop) for l in r.stdout.splitlines()):
                caught.append(prop)
                if os.environ.get('VERIF_SHOW_REPLAY'):
                    for l in r.stdout.splitlines():
                        m = re.match(r'VIOLATION property=\S+ replay=(\S+)', l)
                        if m:
                            print(open(m.group(1)).read().split('# --- original')[0])
        # remove build dirs created for the scratch tree
        return 0 if caught else 1
    finally:
        shutil.rmtree(scratch, ignore_errors=True)
        prune_build()


def prune_build(keep=64, min_age_s=6 * 3600):
    """Keep the build cache small: remove the least recently used engine build directories, but never one that
    was used in the last hours (a long-running check may still be executing from it)."""
    try:
        ds = [os.path.join(BUILD, d) for d in os.listdir(BUILD) if d not in ('out', 'covraw')]
    except OSError:
        return
    now = time.time()
    ds.sort(key=lambda d: os.path.getmtime(d))
    for d in ds[:-keep]:
        try:
            if now - os.path.getmtime(d) < min_age_s:
                continue
        except OSError:
            continue
        shutil.rmtree(d, ignore_errors=True)


def main():
    a = sys.argv[1:]
    if not a:
        print(__doc__)
        return 2
    cmd = a[0]
    if cmd == 'setup':
        for tool in (CC, 'python3', 'nm'):
            if shutil.which(tool) is None:
                print('missing tool: ' + tool)
                return 2
        for d in ('build', 'evidence', 'replays'):
            os.makedirs(os.path.join(VERIF, d), exist_ok=True)
        names = [n for n in sorted(ENGINES) if engine_exists(n)]
        with cf.ThreadPoolExecutor(max_workers=4) as ex:
            for n, exe in zip(names, ex.map(build_engine, names)):
                print('built', n, exe)
        return 0
    if cmd == 'build':
        for n in (a[1:] or sorted(ENGINES)):
            print(build_engine(n))
        return 0
    if cmd == 'check':
        prop = a[1]
        tier = os.environ.get('VERIF_TIER', 'quick')
        if '--tier' in a:
            tier = a[a.index('--tier') + 1]
        return check(prop, tier)
    if cmd == 'replay':
        o, h = replay_file(a[1])
        print(json.dumps({k: o[k] for k in ('kind', 'oracle', 'sig', 'msg', 'hash')}))
        if o['kind'] in (1, 3, 4):
            print('VIOLATION property=%s replay=%s' % (h['property'], a[1]))
            return 1
        return 0 if o['kind'] == 0 else 2
    if cmd == 'selftest-determinism':
        # every seed twice (three times), in different processes, at different worker counts: identical trace hashes
        n = int(a[1]) if len(a) > 1 else 5000
        bad = 0
        for engine in sorted(ENGINES):
            if not engine_exists(engine):
                continue
            exe = build_engine(engine)
            for prop in [p for p in ENGINES[engine]['props'] if p != 'C14']:
                cnt = max(200, n // 20) if engine == 'entropy' else n
                runs = [run_batch(exe, prop, 7 << 32, cnt, 'det', nworkers=w)[2] for w in (16, 3, 11)]
                same = all(list(r) == list(runs[0]) for r in runs[1:])
                print('%-10s %s: %d seeds x 3 executions at 16/3/11 workers: %s' % (engine, prop, len(runs[0]), 'identical' if same else 'DIFFERENT'))
                if not same:
                    bad += 1
                    for i, (x, y, z) in enumerate(zip(*runs)):
                        if not (x == y == z):
                            print('   first divergence at seed index %d: %x %x %x' % (i, x, y, z))
                            break
        return 2 if bad else 0
    if cmd == 'selftest-mutants':
        # selftest-mutants [substring...]: every mutants/*.patch and seeded/*/patch.diff must be caught by its property's quick check
        import glob
        todo = []
        for f in sorted(glob.glob(os.path.join(VERIF, 'mutants', '*.patch'))):
            todo.append((os.path.basename(f)[:-6], f, os.path.basename(f).split('.')[-2]))
        for d in sorted(glob.glob(os.path.join(VERIF, 'seeded', '*'))):
            mp = os.path.join(d, 'meta.json')
            if os.path.exists(mp):
                meta = json.load(open(mp))
                if meta.get('property') is None:
                    continue        # recorded as outside every claimed statement (see its detection_note)
                todo.append(('seeded-' + os.path.basename(d), os.path.join(d, 'patch.diff'), meta['property']))
        if len(a) > 1:
            todo = [t for t in todo if any(x in t[0] for x in a[1:])]
        results = {}

        def one(t):
            name, path, prop = t
            r = subprocess.run([sys.executable, os.path.abspath(__file__), 'mutant', path, prop],
                               env=dict(os.environ, VERIF_WORKERS='8'), capture_output=True, text=True)
            line = [l for l in r.stdout.splitlines() if l.startswith(prop + ':')]
            return name, prop, r.returncode, (line[0] if line else r.stdout[-300:])

        with cf.ThreadPoolExecutor(max_workers=3) as ex:
            for name, prop, rc, line in ex.map(one, todo):
                status = 'CAUGHT' if rc == 0 else ('MISSED' if rc == 1 else 'ERROR')
                m = re.search(r'oracle=(\S+)', line)
                results[name] = {'property': prop, 'status': status, 'oracle': m.group(1) if m else None}
                print('%-40s %s %-7s %s' % (name, prop, status, (m.group(1) if m else line[:160])), flush=True)
        os.makedirs(os.path.join(VERIF, 'mutants'), exist_ok=True)
        old = {}
        rp = os.path.join(VERIF, 'mutants', 'RESULTS.json')
        if os.path.exists(rp):
            old = json.load(open(rp))
        old.update(results)
        json.dump(old, open(rp, 'w'), indent=1, sort_keys=True)
        missed = [n for n, r in results.items() if r['status'] != 'CAUGHT']
        print('%d mutants, %d not caught: %s' % (len(results), len(missed), missed))
        return 1 if missed else 0
    if cmd == 'witness':
        # witness ENGINE PROP SEED OUTFILE [AFSTEP,K,P]: gate + minimise the violation of SEED and store it
        engine, prop, seed, out = a[1], a[2], int(a[3]), a[4]
        exe = build_engine(engine)
        args = ['--prop', prop, '--seed', str(seed)]
        if len(a) > 5:
            args = ['--af', a[5]] + args
        o, _, _ = run_json(exe, args)
        if o is None or o['kind'] not in (1, 3, 4):
            print('seed does not violate:', o)
            return 2
        path, st = handle_violation(exe, engine, prop, o, repo_tree_hash())
        if st != 'ok':
            return 2
        os.makedirs(os.path.dirname(os.path.abspath(out)), exist_ok=True)
        shutil.move(path, out)
        print(open(out).read().split('# --- original')[0])
        return 0
    if cmd == 'mutant':
        return mutant(a[1], a[2:])
    if cmd == 'exe':
        print(build_engine(a[1]))
        return 0
    if cmd == 'cov':
        return coverage(int(a[1]) if len(a) > 1 else 4000)
    print('unknown command', cmd)
    return 2


if __name__ == '__main__':
    try:
        rc = main()
    except SystemExit:
        raise
    except BaseException:
        # an error of the machinery is never a verdict about the property
        import traceback
        traceback.print_exc()
        rc = 2
    sys.exit(rc)
