/*
 * containers.c -- engine for C12 (elastic array/queue, seqptrmap, mpool) and
 * C13 (ptrheap, timerqueue), plus their part of C14.
 *
 * Real code: elasticarray.c elasticqueue.c seqptrmap.c ptrheap.c
 * timerqueue.c mpool.h.  The only environment these structures meet is the
 * allocator, which the simulation owns: failure, moving/non-moving realloc,
 * refused shrink, pattern-filled fresh memory.
 */
#define _GNU_SOURCE
#include <sys/time.h>

#include <errno.h>
#include <stdint.h>
#include <stdio.h>
#include <stdlib.h>
#include <string.h>

#include "elasticarray.h"
#include "elasticqueue.h"
#include "mpool.h"
#include "ptrheap.h"
#include "seqptrmap.h"
#include "timerqueue.h"
#include "asprintf.h"

#include "sim.h"
#include "simalloc.h"

const char * engine_name = "containers";
const char * const engine_props[] = { "C12", "C13", "C14", NULL };

enum {
	N_OPS, N_EA, N_EQ, N_MAP, N_POOL, N_HEAP, N_TQ, N_OVERFLOW, N_REFUSED, N_MOVED, N_F_ALLOC, N_OPFAIL,
	N_EXPORT, N_EQ_COMPACT, N_MAP_FRONT, N_MAP_MID, N_MAP_UNKNOWN, N_POOL_GROW, N_POOL_REUSE, N_HEAP_CREATE,
	N_HEAP_TIES, N_HEAP_BYHANDLE, N_TQ_TIES, N_TQ_NULL, N_BIG, N_MIXED, N_SHRINK_REALLOC, N_DRAINED, N_ITER, N_ITER_SHRINK, N_BIGREC, N_POOL_FREENULL
};
const char * const engine_counters[] = {
	"operations", "runs_elasticarray", "runs_elasticqueue", "runs_seqptrmap", "runs_mpool", "runs_ptrheap",
	"runs_timerqueue", "probe_size_overflow_request", "fault_shrink_realloc_refused", "fault_realloc_moved_block",
	"fault_alloc_failed", "probe_operation_failed", "probe_export", "probe_queue_front_compaction",
	"probe_map_delete_front", "probe_map_delete_middle", "probe_map_unknown_number", "probe_pool_stack_doubled",
	"probe_pool_object_reused", "probe_heap_create_from_array", "probe_heap_duplicate_keys", "probe_heap_by_handle_ops",
	"probe_timerqueue_equal_times", "probe_timerqueue_getptr_null", "probe_size_over_1000", "probe_mixed_record_sizes",
	"probe_shrink_reallocated", "probe_drained_elements", "probe_typed_iteration", "probe_iteration_visitor_shrinks",
	"probe_enormous_record_size", "probe_pool_free_null", NULL
};

#define AF_SINCE(before) (simalloc_failed != (before))
static int scenario;
static int cur_refuse;

static const char *
crash_or(const char * o)
{

	return (o);
}

/* =================== elastic array =================== */
static struct elasticarray * EA;
static uint8_t * mv;		/* model bytes */
static uint8_t * md;		/* 1 = defined */
static size_t msize, mcap;
static uint64_t datactr;
static int bound_ok = 1;	/* the factor-4 bound is expected to hold right now */

static void
m_resize(size_t n, int defined)
{
	size_t i;

	if (n > mcap) {
		mcap = n * 2 + 64;
		mv = realloc(mv, mcap);
		md = realloc(md, mcap);
	}
	for (i = msize; i < n; i++) {
		mv[i] = 0;
		md[i] = (uint8_t)defined;
	}
	msize = n;
}

static void
ea_check(const char * after)
{
	size_t sz, i;
	uint8_t * p;

	if (EA == NULL)
		return;
	LIB_ENTER();
	sz = elasticarray_getsize(EA, 1);
	p = elasticarray_get(EA, 0, 1);
	LIB_LEAVE();
	if (sz != msize)
		sim_viol("C12.ea.size", "size", "after %s the array holds %zu bytes, the ideal array %zu", after, sz, msize);
	for (i = 0; i < sz; i++)
		if (md[i] && p[i] != mv[i])
			sim_viol("C12.ea.content", "content", "after %s byte %zu of the array is 0x%02x, the ideal array has 0x%02x", after, i, p[i], mv[i]);
	if (bound_ok && p != NULL) {
		size_t alloc = simalloc_size(p);

		if (alloc != (size_t)(-1) && alloc > 4 * sz + 3)
			sim_viol("C12.ea.bound", "bound", "after %s the array holds %zu bytes in an allocation of %zu (more than 4x)", after, sz, alloc);
	}
	if (sz > 1000)
		R->cnt[N_BIG]++;
}

/* ---- the typed wrappers of elasticarray.h (real code: inline functions), used for iteration ---- */
struct r3 { uint8_t b[3]; };
struct r13 { uint8_t b[13]; };
ELASTICARRAY_DECL(T1LIST, t1list, uint8_t);
ELASTICARRAY_DECL(T3LIST, t3list, struct r3);
ELASTICARRAY_DECL(T4LIST, t4list, uint32_t);
ELASTICARRAY_DECL(T8LIST, t8list, uint64_t);
ELASTICARRAY_DECL(T13LIST, t13list, struct r13);
static size_t it_i, it_reclen, it_shrink_at, it_shrink_n;
static int it_active;

static void
it_visit(void * p)
{
	uint8_t * base;
	size_t i;
	int d = simalloc_depth;

	simalloc_depth = 0;
	if (it_i >= msize / it_reclen)
		sim_viol("C12.ea.iter", "beyond", "iteration visited record %zu but the ideal array has %zu records of %zu bytes", it_i, msize / it_reclen, it_reclen);
	LIB_ENTER();
	base = elasticarray_get(EA, 0, 1);
	LIB_LEAVE();
	if ((uint8_t *)p != base + it_i * it_reclen)
		sim_viol("C12.ea.iter", "pointer", "iteration step %zu was handed a pointer %td bytes into the storage, not %zu", it_i, (uint8_t *)p - base, it_i * it_reclen);
	for (i = 0; i < it_reclen; i++)
		if (md[it_i * it_reclen + i] && ((uint8_t *)p)[i] != mv[it_i * it_reclen + i])
			sim_viol("C12.ea.iter", "content", "iteration step %zu: byte %zu of the record differs from the ideal array", it_i, i);
	if (it_i == it_shrink_at && it_shrink_n > 0) {
		/* the visitor drops records from the end of the array it is walking */
		size_t n = it_shrink_n * it_reclen > msize ? 0 : msize - it_shrink_n * it_reclen;
		int f0 = simalloc_failed;
		uint64_t r0 = simalloc_nrefused_shrink;

		LIB_ENTER();
		elasticarray_shrink(EA, it_shrink_n, it_reclen);
		LIB_LEAVE();
		NOTE("  visitor %zu shrinks the array by %zu records", it_i, it_shrink_n);
		m_resize(n, 0);
		bound_ok = !(simalloc_nrefused_shrink != r0 || AF_SINCE(f0));
		R->cnt[N_ITER_SHRINK]++;
	}
	it_i++;
	simalloc_depth = d;
}
static void it_v1(uint8_t * p) { it_visit(p); }
static void it_v3(struct r3 * p) { it_visit(p); }
static void it_v4(uint32_t * p) { it_visit(p); }
static void it_v8(uint64_t * p) { it_visit(p); }
static void it_v13(struct r13 * p) { it_visit(p); }

static void
ea_iter(size_t a, size_t b, size_t c)
{
	static const size_t rls[] = { 1, 3, 4, 8, 13 };
	size_t n0, expect;

	it_reclen = rls[b % 5];
	n0 = msize / it_reclen;
	it_i = 0;
	it_shrink_n = c;
	it_shrink_at = (c > 0 && n0 > 0) ? a % n0 : (size_t)(-1);
	if (it_shrink_at != (size_t)(-1)) {
		size_t n1 = it_shrink_n > n0 ? 0 : n0 - it_shrink_n;

		expect = it_shrink_at + 1 > n1 ? it_shrink_at + 1 : n1;
	} else
		expect = n0;
	it_active = 1;
	R->cnt[N_ITER]++;
	LIB_ENTER();
	switch (it_reclen) {
	case 1: t1list_iter((T1LIST)EA, it_v1); break;
	case 3: t3list_iter((T3LIST)EA, it_v3); break;
	case 4: t4list_iter((T4LIST)EA, it_v4); break;
	case 8: t8list_iter((T8LIST)EA, it_v8); break;
	default: t13list_iter((T13LIST)EA, it_v13); break;
	}
	LIB_LEAVE();
	it_active = 0;
	TR(0x16, it_reclen, it_i, "iterate as records of %zu bytes: %zu visits", it_reclen, it_i);
	if (it_i != expect)
		sim_viol("C12.ea.iter", "count", "iteration over records of %zu bytes made %zu visits, the ideal array gives %zu", it_reclen, it_i, expect);
}

static void
ea_init(size_t nrec, size_t reclen)
{
	int f0 = simalloc_failed;
	int overflow = (reclen != 0 && nrec > SIZE_MAX / reclen);

	if (EA != NULL)
		return;
	if (reclen == 0)
		reclen = 1;
	errno = 0;
	LIB_ENTER();
	EA = elasticarray_init(nrec, reclen);
	LIB_LEAVE();
	TR(0x10, nrec, reclen, "elasticarray_init(%zu, %zu) -> %s", nrec, reclen, EA ? "ok" : "NULL");
	if (overflow) {
		R->cnt[N_OVERFLOW]++;
		if (EA != NULL)
			sim_viol("C12.ea.size", "overflow-init", "elasticarray_init(%zu, %zu) succeeded although the size overflows", nrec, reclen);
		return;
	}
	if (EA == NULL) {
		if (!AF_SINCE(f0))
			sim_viol("C12.ea.size", "init-null", "elasticarray_init(%zu, %zu) failed without an allocation failure", nrec, reclen);
		R->cnt[N_OPFAIL]++;
		return;
	}
	msize = 0;
	m_resize(nrec * reclen, 0);
	bound_ok = 1;
	ea_check("init");
}

static void
ea_op(const char * op, size_t a, size_t b, int refuse)
{
	int rc, f0 = simalloc_failed;
	uint64_t r0 = simalloc_nrefused_shrink, m0 = simalloc_nmoved;
	size_t i;

	if (EA == NULL) {
		ea_init(a % 50, b % 16 + 1);
		return;
	}
	R->cnt[N_OPS]++;
	if (b == 0)
		b = 1;
	cur_refuse = refuse;
	simalloc_refuse_shrink = refuse;
	if (!strcmp(op, "shrink_edge") || !strcmp(op, "resize_edge")) {
		/* record counts whose product with the record size wraps around: k * (2^64 / reclen) + 1 + r */
		size_t k = 1 + (a / 8) % (b > 1 ? b - 1 : 1);

		if (b < 2)
			b = 2;
		a = k * (SIZE_MAX / b) + 1 + (a % 8);
		op = op[0] == 's' ? "shrink" : "resize";
	}
	if (!strcmp(op, "resize_bigrec") || !strcmp(op, "append_bigrec") || !strcmp(op, "shrink_bigrec")) {
		/*
		 * A small record count with an enormous record size whose product wraps to something small:
		 * reclen = 2^k + r, nrec = j * 2^(64-k) + i.  The true product is at least 2^64.
		 */
		unsigned k = 20 + (unsigned)(a % 44);		/* 20..63 */
		size_t r = (a / 44) % 17, j = 1 + (a / 748) % 3, i = (b % 3);

		b = ((size_t)1 << k) + r;
		a = j * ((size_t)1 << (64 - k)) + i;
		if (k == 63 && (a / 2) * 2 != a && r == 0)
			a++;
		op = op[0] == 'r' ? "resize" : op[0] == 'a' ? "append" : "shrink";
		R->cnt[N_BIGREC]++;
	}
	if (!strcmp(op, "append_edge")) {
		/* record counts right at the overflow boundary of the current size: SIZE_MAX/reclen - size/reclen - 1, +0, +1 */
		a = SIZE_MAX / b - msize / b + (a % 3) - 1;
		op = "append";
	}
	if (!strcmp(op, "append")) {
		int overflow = (a > SIZE_MAX / b) || (a * b > SIZE_MAX - msize);
		uint8_t * buf = NULL;
		size_t n = overflow ? 0 : a * b;

		if (!overflow && n > ((size_t)1 << 40)) {
			/* a request the real allocator must refuse: it has to fail cleanly and leave the array alone */
			errno = 0;
			LIB_ENTER();
			rc = elasticarray_append(EA, "", a, b);
			LIB_LEAVE();
			TR(0x11, a, b, "elasticarray_append(%zu x %zu: more than any allocator gives) -> %d", a, b, rc);
			R->cnt[N_OVERFLOW]++;
			if (rc == 0)
				sim_viol("C12.ea.size", "huge-append", "append of %zu x %zu records (about 2^%d bytes) succeeded", a, b, 63);
			simalloc_refuse_shrink = 0;
			ea_check(op);
			return;
		}
		if (!overflow) {
			if (n > 200000) {
				a = 200000 / b;
				n = a * b;
			}
			buf = malloc(n + 1);
			for (i = 0; i < n; i++)
				buf[i] = (uint8_t)(datactr++ * 167 + 13);
		}
		errno = 0;
		LIB_ENTER();
		rc = elasticarray_append(EA, overflow ? (const void *)"" : buf, a, b);
		LIB_LEAVE();
		TR(0x11, a, b, "elasticarray_append(%zu x %zu) -> %d", a, b, rc);
		if (overflow) {
			R->cnt[N_OVERFLOW]++;
			if (rc == 0)
				sim_viol("C12.ea.size", "overflow-append", "append of %zu x %zu records succeeded although the size overflows", a, b);
		} else if (rc == 0) {
			size_t o = msize;

			m_resize(o + n, 1);
			memcpy(mv + o, buf, n);
			memset(md + o, 1, n);
			bound_ok = 1;
		} else {
			if (!AF_SINCE(f0) && simalloc_nrefused_shrink == r0)
				sim_viol("C12.ea.size", "append-fail", "append failed without an allocation failure");
			R->cnt[N_OPFAIL]++;
		}
		free(buf);
	} else if (!strcmp(op, "resize")) {
		int overflow = (a > SIZE_MAX / b);

		if (!overflow && a * b > 300000)
			a = 300000 / b;
		errno = 0;
		LIB_ENTER();
		rc = elasticarray_resize(EA, a, b);
		LIB_LEAVE();
		TR(0x12, a, b, "elasticarray_resize(%zu x %zu) -> %d", a, b, rc);
		if (overflow) {
			R->cnt[N_OVERFLOW]++;
			if (rc == 0)
				sim_viol("C12.ea.size", "overflow-resize", "resize to %zu x %zu records succeeded although the size overflows", a, b);
		} else if (rc == 0) {
			m_resize(a * b, 0);
			bound_ok = 1;
		} else {
			if (!AF_SINCE(f0) && simalloc_nrefused_shrink == r0)
				sim_viol("C12.ea.size", "resize-fail", "resize failed without an allocation failure");
			R->cnt[N_OPFAIL]++;
		}
	} else if (!strcmp(op, "shrink")) {
		size_t n = (a > SIZE_MAX / b || a * b > msize) ? 0 : msize - a * b;

		LIB_ENTER();
		elasticarray_shrink(EA, a, b);
		LIB_LEAVE();
		TR(0x13, a, b, "elasticarray_shrink(%zu x %zu)%s", a, b, simalloc_nrefused_shrink != r0 ? " [realloc refused]" : "");
		m_resize(n, 0);
		if (simalloc_nrefused_shrink != r0 || AF_SINCE(f0))
			bound_ok = 0;	/* documented exception */
		else
			bound_ok = 1;
		if (simalloc_nmoved != m0)
			R->cnt[N_SHRINK_REALLOC]++;
	} else if (!strcmp(op, "truncate")) {
		LIB_ENTER();
		rc = elasticarray_truncate(EA);
		LIB_LEAVE();
		TR(0x14, 0, 0, "elasticarray_truncate -> %d", rc);
		if (rc != 0 && !AF_SINCE(f0) && simalloc_nrefused_shrink == r0)
			sim_viol("C12.ea.size", "truncate-fail", "truncate failed without an allocation failure");
		if (rc == 0) {
			uint8_t * p;

			LIB_ENTER();
			p = elasticarray_get(EA, 0, 1);
			LIB_LEAVE();
			bound_ok = 1;
			if (p != NULL && simalloc_size(p) != (size_t)(-1) && simalloc_size(p) != msize)
				sim_viol("C12.ea.bound", "truncate", "after truncate the allocation is %zu bytes for %zu bytes of content", simalloc_size(p), msize);
		}
	} else if (!strcmp(op, "get")) {
		size_t n;

		LIB_ENTER();
		n = elasticarray_getsize(EA, b);
		LIB_LEAVE();
		if (n != msize / b)
			sim_viol("C12.ea.size", "getsize", "getsize(reclen %zu) = %zu, the ideal array has %zu", b, n, msize / b);
		if (n > 0) {
			size_t pos = a % n;
			uint8_t * p;

			LIB_ENTER();
			p = elasticarray_get(EA, pos, b);
			LIB_LEAVE();
			for (i = 0; i < b; i++)
				if (md[pos * b + i] && p[i] != mv[pos * b + i])
					sim_viol("C12.ea.content", "get", "record %zu (reclen %zu) byte %zu differs from the ideal array", pos, b, i);
		}
		if (msize % b)
			R->cnt[N_MIXED]++;
	} else if (!strcmp(op, "exportdup") || !strcmp(op, "export")) {
		void * buf = NULL;
		size_t nrec = 0;
		int dup = !strcmp(op, "exportdup");

		R->cnt[N_EXPORT]++;
		LIB_ENTER();
		rc = dup ? elasticarray_exportdup(EA, &buf, &nrec, b) : elasticarray_export(EA, &buf, &nrec, b);
		LIB_LEAVE();
		TR(0x15, dup, b, "elasticarray_export%s(reclen %zu) -> %d, %zu records", dup ? "dup" : "", b, rc, nrec);
		if (rc != 0) {
			if (!AF_SINCE(f0) && simalloc_nrefused_shrink == r0)
				sim_viol("C12.ea.export", "export-fail", "export failed without an allocation failure");
			R->cnt[N_OPFAIL]++;
		} else {
			if (nrec != msize / b)
				sim_viol("C12.ea.export", "nrec", "export reported %zu records of %zu bytes, the ideal array has %zu", nrec, b, msize / b);
			for (i = 0; i < msize; i++)
				if (md[i] && ((uint8_t *)buf)[i] != mv[i])
					sim_viol("C12.ea.export", "bytes", "exported byte %zu differs from the ideal array", i);
			if (buf != NULL && simalloc_size(buf) != (size_t)(-1) && simalloc_size(buf) < msize)
				sim_viol("C12.ea.export", "short-buffer", "exported buffer of %zu bytes for %zu bytes of content", simalloc_size(buf), msize);
			LIB_ENTER();	/* the block was allocated by the library; the caller releases it */
			free(buf);
			LIB_LEAVE();
			if (!dup) {
				EA = NULL;
				msize = 0;
			}
		}
	}
	simalloc_refuse_shrink = 0;
	ea_check(op);
}

/* =================== elastic queue / seqptrmap =================== */
static struct elasticqueue * EQ;
static size_t eq_reclen;
static uint8_t * qm;		/* model: records, FIFO */
static size_t qn, qcap;

static void
eq_check(const char * after)
{
	size_t i, n;

	if (EQ == NULL)
		return;
	LIB_ENTER();
	n = elasticqueue_getlen(EQ);
	LIB_LEAVE();
	if (n != qn)
		sim_viol("C12.eq.len", "len", "after %s the queue has %zu records, the ideal queue %zu", after, n, qn);
	for (i = 0; i < qn; i++) {
		uint8_t * p;

		LIB_ENTER();
		p = elasticqueue_get(EQ, i);
		LIB_LEAVE();
		if (p == NULL || memcmp(p, qm + i * eq_reclen, eq_reclen) != 0)
			sim_viol("C12.eq.content", "content", "after %s record %zu of the queue differs from the ideal queue", after, i);
	}
	LIB_ENTER();
	if (elasticqueue_get(EQ, qn) != NULL || elasticqueue_get(EQ, qn + 7) != NULL)
		sim_viol("C12.eq.content", "beyond", "elasticqueue_get beyond the end returned a record");
	for (i = 0; i < 6; i++)
		if (elasticqueue_get(EQ, SIZE_MAX - i) != NULL || elasticqueue_get(EQ, SIZE_MAX / 2 + i) != NULL ||
		    elasticqueue_get(EQ, SIZE_MAX / eq_reclen - i) != NULL ||
		    (eq_reclen > 1 && elasticqueue_get(EQ, SIZE_MAX / eq_reclen + 1 + i) != NULL))
			sim_viol("C12.eq.content", "beyond-huge", "elasticqueue_get of a huge position returned a record");
	LIB_LEAVE();
}

static void
eq_op(const char * op, size_t a, int refuse)
{
	int f0 = simalloc_failed, rc;
	uint64_t r0 = simalloc_nrefused_shrink;
	size_t i;

	R->cnt[N_OPS]++;
	if (EQ == NULL) {
		LIB_ENTER();
		EQ = elasticqueue_init(eq_reclen);
		LIB_LEAVE();
		if (EQ == NULL) {
			if (!AF_SINCE(f0))
				sim_viol("C12.eq.len", "init-null", "elasticqueue_init failed without an allocation failure");
			return;
		}
		qn = 0;
	}
	simalloc_refuse_shrink = refuse;
	if (!strcmp(op, "add")) {
		uint8_t rec[64];

		for (i = 0; i < eq_reclen; i++)
			rec[i] = (uint8_t)(datactr++ * 131 + 7);
		LIB_ENTER();
		rc = elasticqueue_add(EQ, rec);
		LIB_LEAVE();
		TR(0x20, rc, 0, "elasticqueue_add -> %d", rc);
		if (rc == 0) {
			if ((qn + 1) * eq_reclen > qcap) {
				qcap = (qn + 1) * eq_reclen * 2 + 64;
				qm = realloc(qm, qcap);
			}
			memcpy(qm + qn * eq_reclen, rec, eq_reclen);
			qn++;
		} else {
			if (!AF_SINCE(f0) && simalloc_nrefused_shrink == r0)
				sim_viol("C12.eq.len", "add-fail", "elasticqueue_add failed without an allocation failure");
			R->cnt[N_OPFAIL]++;
		}
	} else if (!strcmp(op, "delete")) {
		uint64_t m0 = simalloc_nmoved + simalloc_nrefused_shrink;

		LIB_ENTER();
		elasticqueue_delete(EQ);
		LIB_LEAVE();
		TR(0x21, 0, 0, "elasticqueue_delete%s", simalloc_nrefused_shrink != r0 ? " [realloc refused]" : "");
		if (qn > 0) {
			memmove(qm, qm + eq_reclen, (qn - 1) * eq_reclen);
			qn--;
		}
		if (simalloc_nmoved + simalloc_nrefused_shrink != m0)
			R->cnt[N_EQ_COMPACT]++;
	} else if (!strcmp(op, "get")) {
		/* covered by eq_check */
	}
	simalloc_refuse_shrink = 0;
	(void)a;
	eq_check(op);
}

static struct seqptrmap * MAP;
#define MAXMAP 4096
static void * map_ptr[MAXMAP];	/* model: number -> pointer or NULL */
static int64_t map_next;
static char map_objs[MAXMAP];

static void
map_check(const char * after)
{
	int64_t i, min = -1, gm;

	if (MAP == NULL)
		return;
	for (i = 0; i < map_next; i++) {
		void * p;

		LIB_ENTER();
		p = seqptrmap_get(MAP, i);
		LIB_LEAVE();
		if (p != map_ptr[i])
			sim_viol("C12.map.get", "get", "after %s seqptrmap_get(%ld) returned %s, the ideal map has %s", after, (long)i,
			    p ? (p == &map_objs[i] ? "its pointer" : "another pointer") : "NULL", map_ptr[i] ? "a pointer" : "NULL");
		if (map_ptr[i] != NULL && min < 0)
			min = i;
	}
	LIB_ENTER();
	gm = seqptrmap_getmin(MAP);
	if (seqptrmap_get(MAP, map_next) != NULL || seqptrmap_get(MAP, map_next + 100) != NULL || seqptrmap_get(MAP, -1) != NULL ||
	    seqptrmap_get(MAP, INT64_MIN) != NULL || seqptrmap_get(MAP, INT64_MAX) != NULL)
		sim_viol("C12.map.get", "unknown", "seqptrmap_get of a number that was never issued returned a pointer");
	LIB_LEAVE();
	if (gm != min)
		sim_viol("C12.map.min", "min", "after %s seqptrmap_getmin = %ld, the least live number is %ld", after, (long)gm, (long)min);
}

static void
map_op(const char * op, size_t a, int refuse)
{
	int f0 = simalloc_failed;
	uint64_t r0 = simalloc_nrefused_shrink;

	R->cnt[N_OPS]++;
	if (MAP == NULL) {
		LIB_ENTER();
		MAP = seqptrmap_init();
		LIB_LEAVE();
		if (MAP == NULL) {
			if (!AF_SINCE(f0))
				sim_viol("C12.map.number", "init-null", "seqptrmap_init failed without an allocation failure");
			return;
		}
	}
	simalloc_refuse_shrink = refuse;
	if (!strcmp(op, "add")) {
		int64_t n;

		if (map_next >= MAXMAP)
			goto out;
		LIB_ENTER();
		n = seqptrmap_add(MAP, &map_objs[map_next]);
		LIB_LEAVE();
		TR(0x30, n, 0, "seqptrmap_add -> %ld", (long)n);
		if (n == -1) {
			if (!AF_SINCE(f0) && simalloc_nrefused_shrink == r0)
				sim_viol("C12.map.number", "add-fail", "seqptrmap_add failed without an allocation failure");
			R->cnt[N_OPFAIL]++;
		} else {
			if (n != map_next)
				sim_viol("C12.map.number", "number", "seqptrmap_add issued number %ld, expected %ld (numbers are issued consecutively from 0)", (long)n, (long)map_next);
			map_ptr[map_next] = &map_objs[map_next];
			map_next++;
		}
	} else if (!strcmp(op, "delete")) {
		int64_t i;
		int64_t min = -1, k;

		for (k = 0; k < map_next; k++)
			if (map_ptr[k] != NULL) {
				min = k;
				break;
			}
		switch (a % 8) {
		case 0: case 1: case 2:
			i = min;	/* front */
			if (i >= 0)
				R->cnt[N_MAP_FRONT]++;
			break;
		case 3: case 4:
			i = map_next > 0 ? (int64_t)((a / 8) % (uint64_t)map_next) : 0;
			R->cnt[N_MAP_MID]++;
			break;
		case 5:
			i = map_next + (int64_t)(a % 5);	/* never issued */
			if ((a / 8) % 3 == 1 && min >= 0) {
				/* never issued, but congruent to a live number modulo 2^32 (or 2^31): no narrowing may confuse the two */
				static const int64_t mods[] = { 4294967296LL, 8589934592LL, 2147483648LL, 281474976710656LL };

				i = ((a / 24) % 2 ? min : (int64_t)((a / 48) % (uint64_t)map_next)) + mods[(a / 96) % 4];
			}
			R->cnt[N_MAP_UNKNOWN]++;
			break;
		case 6:
			i = -1 - (int64_t)(a % 3);
			R->cnt[N_MAP_UNKNOWN]++;
			break;
		default:
			i = map_next > 0 ? map_next - 1 : 0;	/* most recent */
			break;
		}
		LIB_ENTER();
		seqptrmap_delete(MAP, i);
		LIB_LEAVE();
		TR(0x31, i, 0, "seqptrmap_delete(%ld)", (long)i);
		if (i >= 0 && i < map_next)
			map_ptr[i] = NULL;
	}
out:
	simalloc_refuse_shrink = 0;
	map_check(op);
}

/* =================== object pool =================== */
struct o1 { char c[1]; };
struct o4 { char c[24]; };
struct o4096 { char c[100]; };
MPOOL(p1, struct o1, 1);
MPOOL(p4, struct o4, 4);
MPOOL(p4096, struct o4096, 4096);
static int pool_kind;
#define MAXOBJ 20000
static void * pool_inuse[MAXOBJ];
static int pool_n;
static void * pool_seen[MAXOBJ];
static int pool_nseen;
static size_t pool_osize;

static void *
pool_malloc(void)
{

	switch (pool_kind) {
	case 0: return (mpool_p1_malloc());
	case 1: return (mpool_p4_malloc());
	default: return (mpool_p4096_malloc());
	}
}

static void
pool_free(void * p)
{

	switch (pool_kind) {
	case 0: mpool_p1_free(p); break;
	case 1: mpool_p4_free(p); break;
	default: mpool_p4096_free(p); break;
	}
}

static void
pool_op(const char * op, size_t a)
{
	int f0 = simalloc_failed, i;
	uint64_t nl0 = simalloc_nlib;

	R->cnt[N_OPS]++;
	if (!strcmp(op, "malloc")) {
		void * p;

		if (pool_n >= MAXOBJ)
			return;
		LIB_ENTER();
		p = pool_malloc();
		LIB_LEAVE();
		if (p == NULL) {
			if (!AF_SINCE(f0))
				sim_viol("C12.pool.in-use", "malloc-null", "pool allocation failed without an allocation failure");
			R->cnt[N_OPFAIL]++;
			return;
		}
		for (i = 0; i < pool_n; i++)
			if (pool_inuse[i] == p)
				sim_viol("C12.pool.in-use", "in-use", "the pool handed out an object that is still in use");
		if (!simalloc_is_live(p) || simalloc_size(p) < pool_osize)
			sim_viol("C12.pool.in-use", "not-live", "the pool handed out memory that is not a live allocation of at least the object size");
		if (simalloc_nlib == nl0)
			R->cnt[N_POOL_REUSE]++;
		memset(p, 0xA0 + (pool_n & 0xf), pool_osize);
		pool_inuse[pool_n++] = p;
		TR(0x40, pool_n, 0, "pool malloc -> object #%d", pool_n);
	} else if (!strcmp(op, "free")) {
		void * p;
		int k;

		if (pool_n == 0 || a % 7 == 3) {
			/* freeing NULL is allowed and does nothing (mpool.h: "behave consistently with free(NULL)") */
			LIB_ENTER();
			pool_free(NULL);
			LIB_LEAVE();
			R->cnt[N_POOL_FREENULL]++;
		}
		if (pool_n == 0)
			return;
		k = (int)(a % (size_t)pool_n);
		p = pool_inuse[k];
		pool_inuse[k] = pool_inuse[--pool_n];
		LIB_ENTER();
		pool_free(p);
		LIB_LEAVE();
		if (simalloc_nlib != nl0)
			R->cnt[N_POOL_GROW]++;
		TR(0x41, k, 0, "pool free (in use now %d)", pool_n);
	}
	(void)pool_seen;
	(void)pool_nseen;
}

/* =================== pointer heap / timer queue =================== */
struct el {
	int64_t key;
	int id, live, inheap;
	size_t rc;
	int rc_set;
	void * tqcookie;
	struct timeval tv;
};
#define MAXEL 6000
static struct el els[MAXEL];
static int nel;
static struct ptrheap * H;
static int in_heap_call;
static int cmp_wide;	/* comparator returns values other than -1/0/1 */

static int
h_compar(void * cookie, const void * x, const void * y)
{
	const struct el * a = x, * b = y;

	if (cookie != (void *)els)
		sim_viol("C13.handle", "cookie", "comparison callback with a foreign cookie");
	if (cmp_wide && a->key != b->key) {
		/* any negative / positive value means less / greater: return magnitudes other than 1 */
		uint64_t d = a->key > b->key ? (uint64_t)a->key - (uint64_t)b->key : (uint64_t)b->key - (uint64_t)a->key;
		int m = (int)(2 + d % 1000003);

		return (a->key > b->key ? m : -m);
	}
	return ((a->key > b->key) - (a->key < b->key));
}

static void
h_setrc(void * cookie, void * ptr, size_t rc)
{
	struct el * e = ptr;

	(void)cookie;
	if (e < els || e >= els + MAXEL)
		sim_viol("C13.handle", "foreign", "record-cookie callback for a pointer that is not in the heap");
	e->rc = rc;
	e->rc_set = 1;
}

static struct el *
h_pick(size_t a)
{
	int i, c = 0, k;

	for (i = 0; i < nel; i++)
		if (els[i].live)
			c++;
	if (c == 0)
		return (NULL);
	k = (int)(a % (size_t)c);
	for (i = 0; i < nel; i++)
		if (els[i].live && k-- == 0)
			return (&els[i]);
	return (NULL);
}

static int64_t
h_modelmin(int * count)
{
	int i, n = 0;
	int64_t m = INT64_MAX;

	for (i = 0; i < nel; i++)
		if (els[i].live) {
			n++;
			if (els[i].key < m)
				m = els[i].key;
		}
	*count = n;
	return (m);
}

static void
h_checkmin(const char * after)
{
	struct el * e;
	int n;
	int64_t m = h_modelmin(&n);

	if (H == NULL)
		return;
	LIB_ENTER();
	e = ptrheap_getmin(H);
	LIB_LEAVE();
	if (n == 0) {
		if (e != NULL)
			sim_viol("C13.min", "empty", "after %s getmin on an empty heap returned an element", after);
		return;
	}
	if (e == NULL)
		sim_viol("C13.min", "null", "after %s getmin returned NULL although %d elements are in the heap", after, n);
	if (e < els || e >= els + nel || !e->live)
		sim_viol("C13.handle", "deleted-returned", "after %s getmin returned an element that was deleted (or never inserted)", after);
	if (e->key != m)
		sim_viol("C13.min", "not-least", "after %s getmin returned key %ld, the least key in the heap is %ld", after, (long)e->key, (long)m);
}

static void
heap_op(const char * op, size_t a, size_t b, int refuse)
{
	int f0 = simalloc_failed, rc, n;
	uint64_t r0 = simalloc_nrefused_shrink;
	struct el * e;

	R->cnt[N_OPS]++;
	simalloc_refuse_shrink = refuse;
	if (H == NULL) {
		/* create: a = number of initial elements */
		size_t N = !strcmp(op, "create") ? a % 300 : 0, i;
		void ** ptrs = malloc((N + 1) * sizeof(void *));

		for (i = 0; i < N && nel < MAXEL; i++) {
			e = &els[nel];
			e->id = nel++;
			e->key = (int64_t)((b * 31 + i * 7919) % 97);
			e->live = 0;
			e->rc_set = 0;
			ptrs[i] = e;
		}
		LIB_ENTER();
		H = N ? ptrheap_create(h_compar, h_setrc, els, N, ptrs) : ptrheap_init(h_compar, h_setrc, els);
		LIB_LEAVE();
		TR(0x50, N, 0, "ptrheap_%s(%zu) -> %s", N ? "create" : "init", N, H ? "ok" : "NULL");
		if (H == NULL) {
			if (!AF_SINCE(f0))
				sim_viol("C13.min", "create-null", "ptrheap_create failed without an allocation failure");
			nel -= (int)N;
			free(ptrs);
			return;
		}
		for (i = 0; i < N; i++) {
			((struct el *)ptrs[i])->live = 1;
			if (!((struct el *)ptrs[i])->rc_set)
				sim_viol("C13.handle", "no-position", "ptrheap_create never reported a position for element %zu", i);
		}
		if (N)
			R->cnt[N_HEAP_CREATE]++;
		free(ptrs);
		h_checkmin("create");
		if (!strcmp(op, "create"))
			return;
	}
	if (!strcmp(op, "add") || !strcmp(op, "create")) {
		int i;

		if (nel >= MAXEL)
			return;
		e = &els[nel];
		e->id = nel;
		e->key = (int64_t)(a % (b % 3 == 0 ? 5 : 1000));
		e->live = 0;
		e->rc_set = 0;
		for (i = 0; i < nel; i++)
			if (els[i].live && els[i].key == e->key) {
				R->cnt[N_HEAP_TIES]++;
				break;
			}
		LIB_ENTER();
		rc = ptrheap_add(H, e);
		LIB_LEAVE();
		TR(0x51, e->key, rc, "ptrheap_add(key %ld) -> %d", (long)e->key, rc);
		if (rc != 0) {
			if (!AF_SINCE(f0) && simalloc_nrefused_shrink == r0)
				sim_viol("C13.min", "add-fail", "ptrheap_add failed without an allocation failure");
			R->cnt[N_OPFAIL]++;
		} else {
			nel++;
			e->live = 1;
			if (!e->rc_set)
				sim_viol("C13.handle", "no-position", "ptrheap_add never reported a position for the new element");
		}
	} else if (!strcmp(op, "deletemin")) {
		(void)h_modelmin(&n);
		if (n == 0)
			return;
		LIB_ENTER();
		e = ptrheap_getmin(H);
		LIB_LEAVE();
		h_checkmin("getmin");
		LIB_ENTER();
		ptrheap_deletemin(H);
		LIB_LEAVE();
		e->live = 0;
		TR(0x52, e->key, 0, "ptrheap_deletemin (key %ld)", (long)e->key);
	} else if (!strcmp(op, "delete")) {
		if ((e = h_pick(a)) == NULL)
			return;
		R->cnt[N_HEAP_BYHANDLE]++;
		LIB_ENTER();
		ptrheap_delete(H, e->rc);
		LIB_LEAVE();
		e->live = 0;
		TR(0x53, e->key, e->rc, "ptrheap_delete(handle of key %ld, position %zu)", (long)e->key, e->rc);
	} else if (!strcmp(op, "increase")) {
		if ((e = h_pick(a)) == NULL)
			return;
		R->cnt[N_HEAP_BYHANDLE]++;
		e->key += (int64_t)(b % 500);
		LIB_ENTER();
		ptrheap_increase(H, e->rc);
		LIB_LEAVE();
		TR(0x54, e->key, e->rc, "ptrheap_increase(handle, new key %ld)", (long)e->key);
	} else if (!strcmp(op, "decrease")) {
		if ((e = h_pick(a)) == NULL)
			return;
		R->cnt[N_HEAP_BYHANDLE]++;
		e->key -= (int64_t)(b % 500);
		LIB_ENTER();
		ptrheap_decrease(H, e->rc);
		LIB_LEAVE();
		TR(0x55, e->key, e->rc, "ptrheap_decrease(handle, new key %ld)", (long)e->key);
	} else if (!strcmp(op, "increasemin")) {
		(void)h_modelmin(&n);
		if (n == 0)
			return;
		LIB_ENTER();
		e = ptrheap_getmin(H);
		LIB_LEAVE();
		h_checkmin("getmin");
		e->key += (int64_t)(b % 500);
		LIB_ENTER();
		ptrheap_increasemin(H);
		LIB_LEAVE();
		TR(0x56, e->key, 0, "ptrheap_increasemin(new key %ld)", (long)e->key);
	}
	simalloc_refuse_shrink = 0;
	h_checkmin(op);
	(void)in_heap_call;
}

static void
heap_drain(void)
{
	int n, got = 0;
	int64_t last = INT64_MIN;
	struct el * e;

	if (H == NULL)
		return;
	(void)h_modelmin(&n);
	for (;;) {
		LIB_ENTER();
		e = ptrheap_getmin(H);
		LIB_LEAVE();
		if (e == NULL)
			break;
		if (e < els || e >= els + nel || !e->live)
			sim_viol("C13.drain", "deleted-returned", "draining the heap returned an element that was deleted or returned twice");
		if (e->key < last)
			sim_viol("C13.drain", "order", "draining the heap returned key %ld after key %ld", (long)e->key, (long)last);
		last = e->key;
		e->live = 0;
		got++;
		LIB_ENTER();
		ptrheap_deletemin(H);
		LIB_LEAVE();
		if (got > n + 2)
			break;
	}
	R->cnt[N_DRAINED] += (uint64_t)got;
	if (got != n)
		sim_viol("C13.drain", "count", "draining the heap returned %d elements, %d were in it", got, n);
	LIB_ENTER();
	ptrheap_free(H);
	LIB_LEAVE();
	H = NULL;
}

static struct timerqueue * TQ;

static int
tvcmp(const struct timeval * x, const struct timeval * y)
{

	if (x->tv_sec != y->tv_sec)
		return (x->tv_sec > y->tv_sec ? 1 : -1);
	if (x->tv_usec != y->tv_usec)
		return (x->tv_usec > y->tv_usec ? 1 : -1);
	return (0);
}

static struct el *
tq_modelmin(int * count)
{
	int i, n = 0;
	struct el * m = NULL;

	for (i = 0; i < nel; i++)
		if (els[i].live) {
			n++;
			if (m == NULL || tvcmp(&els[i].tv, &m->tv) < 0)
				m = &els[i];
		}
	*count = n;
	return (m);
}

static void
tq_checkmin(const char * after)
{
	const struct timeval * tv;
	int n;
	struct el * m = tq_modelmin(&n);

	if (TQ == NULL)
		return;
	LIB_ENTER();
	tv = timerqueue_getmin(TQ);
	LIB_LEAVE();
	if (n == 0) {
		if (tv != NULL)
			sim_viol("C13.tq.order", "empty", "after %s getmin on an empty timer queue returned a time", after);
		return;
	}
	if (tv == NULL)
		sim_viol("C13.tq.order", "null", "after %s getmin returned NULL although %d timers are queued", after, n);
	if (tvcmp(tv, &m->tv) != 0)
		sim_viol("C13.tq.order", "not-least", "after %s getmin returned %ld.%06ld, the least time queued is %ld.%06ld", after,
		    (long)tv->tv_sec, (long)tv->tv_usec, (long)m->tv.tv_sec, (long)m->tv.tv_usec);
}

static void
tq_getptr(const struct timeval * q, const char * what)
{
	int n;
	struct el * m = tq_modelmin(&n), * e;

	LIB_ENTER();
	e = timerqueue_getptr(TQ, q);
	LIB_LEAVE();
	if (m == NULL || tvcmp(&m->tv, q) > 0) {
		R->cnt[N_TQ_NULL]++;
		if (e != NULL) {
			if (e >= els && e < els + nel && e->live)
				sim_viol("C13.tq.late", "late", "%s: getptr(%ld.%06ld) released an entry whose time %ld.%06ld is later", what,
				    (long)q->tv_sec, (long)q->tv_usec, (long)e->tv.tv_sec, (long)e->tv.tv_usec);
			sim_viol("C13.tq.ptr", "bogus", "%s: getptr returned a pointer although nothing is due", what);
		}
		return;
	}
	if (e == NULL)
		sim_viol("C13.tq.ptr", "missed", "%s: getptr(%ld.%06ld) returned NULL although an entry with time %ld.%06ld is queued", what,
		    (long)q->tv_sec, (long)q->tv_usec, (long)m->tv.tv_sec, (long)m->tv.tv_usec);
	if (e < els || e >= els + nel || !e->live)
		sim_viol("C13.tq.ptr", "not-stored", "%s: getptr returned a pointer that is not stored in the queue (deleted, released twice or foreign)", what);
	if (tvcmp(&e->tv, &m->tv) != 0)
		sim_viol("C13.tq.order", "order", "%s: getptr released time %ld.%06ld while %ld.%06ld is still queued", what,
		    (long)e->tv.tv_sec, (long)e->tv.tv_usec, (long)m->tv.tv_sec, (long)m->tv.tv_usec);
	e->live = 0;
	TR(0x64, e->tv.tv_sec, e->tv.tv_usec, "timerqueue_getptr -> entry %d (%ld.%06ld)", e->id, (long)e->tv.tv_sec, (long)e->tv.tv_usec);
}

static void
tq_op(const char * op, size_t a, size_t b, int refuse)
{
	int f0 = simalloc_failed, i;
	uint64_t r0 = simalloc_nrefused_shrink;
	struct el * e;

	R->cnt[N_OPS]++;
	simalloc_refuse_shrink = refuse;
	if (TQ == NULL) {
		LIB_ENTER();
		TQ = timerqueue_init();
		LIB_LEAVE();
		if (TQ == NULL) {
			if (!AF_SINCE(f0))
				sim_viol("C13.tq.order", "init-null", "timerqueue_init failed without an allocation failure");
			return;
		}
	}
	if (!strcmp(op, "add")) {
		if (nel >= MAXEL)
			return;
		e = &els[nel];
		e->id = nel;
		e->tv.tv_sec = (time_t)(100 + a % (b % 2 ? 3 : 50));
		if (a % 23 == 0) {
			/* far-apart times: beyond 2^31 and 2^32 seconds from the others */
			/* ... and the far end of time_t: around 2^63 microseconds, 2^62 seconds, and the "never" sentinel TIME_MAX */
			static const int64_t far[] = { 2147483647LL, 2147483648LL, 2147483749LL, 4294967296LL, 4294967396LL, 3155760000LL, 253402300799LL,
			    9223372036854LL, 9223372036855LL, 4611686018427387904LL, 9223372036854775807LL };

			e->tv.tv_sec = (time_t)far[(a / 23) % 11];
		}
		e->tv.tv_usec = (suseconds_t)((b % 4 == 0) ? 0 : (b * 7919) % 1000000);
		e->live = 0;
		for (i = 0; i < nel; i++)
			if (els[i].live && tvcmp(&els[i].tv, &e->tv) == 0) {
				R->cnt[N_TQ_TIES]++;
				break;
			}
		LIB_ENTER();
		e->tqcookie = timerqueue_add(TQ, &e->tv, e);
		LIB_LEAVE();
		TR(0x60, e->tv.tv_sec, e->tv.tv_usec, "timerqueue_add(%ld.%06ld) -> %s", (long)e->tv.tv_sec, (long)e->tv.tv_usec, e->tqcookie ? "ok" : "NULL");
		if (e->tqcookie == NULL) {
			if (!AF_SINCE(f0) && simalloc_nrefused_shrink == r0)
				sim_viol("C13.tq.order", "add-fail", "timerqueue_add failed without an allocation failure");
			R->cnt[N_OPFAIL]++;
		} else {
			nel++;
			e->live = 1;
		}
	} else if (!strcmp(op, "delete")) {
		if ((e = h_pick(a)) == NULL)
			return;
		R->cnt[N_HEAP_BYHANDLE]++;
		LIB_ENTER();
		timerqueue_delete(TQ, e->tqcookie);
		LIB_LEAVE();
		e->live = 0;
		TR(0x61, e->id, 0, "timerqueue_delete(entry %d)", e->id);
	} else if (!strcmp(op, "increase")) {
		uint64_t us;

		if ((e = h_pick(a)) == NULL)
			return;
		if (e->tv.tv_sec > (time_t)(9223372036854775807LL - 4))
			return;		/* (the harness itself must not overflow time_t) */
		R->cnt[N_HEAP_BYHANDLE]++;
		us = (uint64_t)e->tv.tv_usec + b % 3000000;
		e->tv.tv_sec += (time_t)(us / 1000000);
		e->tv.tv_usec = (suseconds_t)(us % 1000000);
		LIB_ENTER();
		timerqueue_increase(TQ, e->tqcookie, &e->tv);
		LIB_LEAVE();
		TR(0x62, e->id, 0, "timerqueue_increase(entry %d -> %ld.%06ld)", e->id, (long)e->tv.tv_sec, (long)e->tv.tv_usec);
	} else if (!strcmp(op, "getptr")) {
		struct timeval q;

		q.tv_sec = (time_t)(100 + a % 52);
		if (a % 29 == 0)
			q.tv_sec = (time_t)((a / 29) % 2 ? 2147483700LL : 4294967400LL);
		q.tv_usec = (suseconds_t)((b % 3 == 0) ? 0 : (b * 104729) % 1000000);
		tq_getptr(&q, "getptr");
	}
	simalloc_refuse_shrink = 0;
	tq_checkmin(op);
}

static void
tq_drain(void)
{
	struct timeval inf = { 2000000000, 999999 };
	int n, k;

	if (TQ == NULL)
		return;
	(void)tq_modelmin(&n);
	for (k = 0; k < n; k++)
		tq_getptr(&inf, "drain");
	R->cnt[N_DRAINED] += (uint64_t)n;
	tq_checkmin("drain");
	LIB_ENTER();
	timerqueue_free(TQ);
	LIB_LEAVE();
	TQ = NULL;
}

/* =================== asprintf (anchored by C14 only) =================== */
static void
asprintf_op(size_t a, size_t b)
{
	char * out = (char *)0x1, want[1400], pad[1100];
	int rc, wl, f0 = simalloc_failed;
	size_t n = (a % 7 == 0 ? 990 + a % 50 : a % 500), live0 = simalloc_lib_live(NULL);

	R->cnt[N_OPS]++;
	memset(pad, 'q', n);
	pad[n] = 0;
	wl = snprintf(want, sizeof(want), "%s|%zu|%d|%s", pad, b, (int)(a % 97) - 40, b % 2 ? "x" : "");
	LIB_ENTER();
	rc = asprintf(&out, "%s|%zu|%d|%s", pad, b, (int)(a % 97) - 40, b % 2 ? "x" : "");
	LIB_LEAVE();
	TR(0x70, n, rc, "asprintf(%zu-byte argument) -> %d", n, rc);
	if (rc == -1) {
		if (!AF_SINCE(f0))
			sim_viol("C14.rc", "asprintf", "asprintf failed without an allocation failure");
		if (simalloc_lib_live(NULL) != live0)
			sim_viol("C14.leak", "asprintf", "a failed asprintf left memory allocated");
		R->cnt[N_OPFAIL]++;
		return;
	}
	if (AF_SINCE(f0))
		sim_viol("C14.rc", "asprintf-ok", "the allocation inside asprintf failed but it reported success");
	if (rc != wl || strcmp(out, want) != 0)
		sim_viol("C14.rc", "asprintf-value", "asprintf produced a different string than snprintf");
	LIB_ENTER();
	free(out);
	LIB_LEAVE();
}

/* =================== generation =================== */
void
engine_gen(struct plan * P, uint64_t seed, struct prng * g)
{
	int sc, n, i;
	int c13 = !strcmp(sim_prop, "C13"), c12 = !strcmp(sim_prop, "C12");
	int prefuse;

	(void)seed;
	if (c12)
		sc = (int)prng_n(g, 4);
	else if (c13)
		sc = 4 + (int)prng_n(g, 2);
	else
		sc = (int)prng_n(g, 7);
	plan_add(P, "knob", "scenario", 1, (int64_t)sc);
	plan_add(P, "knob", "realloc_moves", 1, (int64_t)prng_chance(g, 60));
	plan_add(P, "knob", "fill", 1, (int64_t)(prng_chance(g, 50) ? 256 : (prng_chance(g, 50) ? 0xff : 0)));
	if (sc == 4)
		plan_add(P, "knob", "cmp_wide", 1, (int64_t)prng_chance(g, 50));
	prefuse = prng_chance(g, 40) ? (int)prng_n(g, 50) : 0;
	n = prng_chance(g, 10) ? 200 + (int)prng_n(g, 1500) : 5 + (int)prng_n(g, 80);
	if (!strcmp(sim_prop, "C14") && n > 60)
		n = 60;
	switch (sc) {
	case 0: {
		static const size_t rl[] = { 1, 1, 2, 3, 4, 8, 8, 13, 16, 64 };
		size_t base = rl[prng_n(g, 10)];
		int mixed = prng_chance(g, 40);

		if (prng_chance(g, 10))
			plan_add(P, "step", "init", 3, (int64_t)-1, (int64_t)(2 + prng_n(g, 60)), (int64_t)0);	/* overflowing product */
		plan_add(P, "step", "init", 3, (int64_t)prng_n(g, prng_chance(g, 20) ? 3000 : 20), (int64_t)base, (int64_t)0);
		for (i = 0; i < n; i++) {
			unsigned x = prng_n(g, 100);
			size_t r = mixed ? rl[prng_n(g, 10)] : base;
			int ref = prng_chance(g, (unsigned)prefuse);

			if (x < 35)
				plan_add(P, "step", "append", 3, (int64_t)(prng_chance(g, 15) ? prng_n(g, 2000) : prng_n(g, 12)), (int64_t)r, (int64_t)ref);
			else if (x < 37)
				plan_add(P, "step", "append", 3, (int64_t)-1 - (int64_t)prng_n(g, 100), (int64_t)(2 + prng_n(g, 30)), (int64_t)0);
			else if (x < 38)
				plan_add(P, "step", "append_edge", 3, (int64_t)prng_n(g, 3), (int64_t)(prng_chance(g, 70) ? 3 + 2 * prng_n(g, 6) : 1 + prng_n(g, 64)), (int64_t)0);
			else if (x < 50)
				plan_add(P, "step", "resize", 3, (int64_t)(prng_chance(g, 15) ? prng_n(g, 3000) : prng_n(g, 40)), (int64_t)r, (int64_t)ref);
			else if (x < 52)
				plan_add(P, "step", "resize", 3, (int64_t)-1 - (int64_t)prng_n(g, 100), (int64_t)(2 + prng_n(g, 30)), (int64_t)0);
			else if (x < 53) {
				if (prng_chance(g, 40)) {
					static const char * const br[] = { "resize_bigrec", "append_bigrec", "shrink_bigrec" };

					plan_add(P, "step", br[prng_n(g, 3)], 3, (int64_t)prng_n(g, 3000), (int64_t)prng_n(g, 3), (int64_t)0);
				} else
					plan_add(P, "step", prng_chance(g, 60) ? "shrink_edge" : "resize_edge", 3, (int64_t)prng_n(g, 64), (int64_t)(2 + prng_n(g, 15)), (int64_t)0);
			}
			else if (x < 72)
				plan_add(P, "step", "shrink", 3, (int64_t)(prng_chance(g, 20) ? prng_n(g, 3000) : prng_n(g, 12)), (int64_t)r, (int64_t)ref);
			else if (x < 78)
				plan_add(P, "step", "truncate", 3, (int64_t)0, (int64_t)1, (int64_t)ref);
			else if (x < 84)
				plan_add(P, "step", "get", 3, (int64_t)prng_n(g, 5000), (int64_t)r, (int64_t)0);
			else if (x < 88)
				plan_add(P, "step", "iter", 3, (int64_t)prng_n(g, 5000), (int64_t)prng_n(g, 5), (int64_t)(prng_chance(g, 40) ? 1 + prng_n(g, prng_chance(g, 50) ? 6 : 3000) : 0));
			else if (x < 95)
				plan_add(P, "step", "exportdup", 3, (int64_t)0, (int64_t)r, (int64_t)0);
			else
				plan_add(P, "step", "export", 3, (int64_t)0, (int64_t)r, (int64_t)ref);
		}
		break;
	}
	case 1: {
		static const size_t rl[] = { 1, 4, 8, 8, 13, 64 };

		plan_add(P, "knob", "reclen", 1, (int64_t)rl[prng_n(g, 6)]);
		for (i = 0; i < n; i++) {
			unsigned x = prng_n(g, 100);
			int burst = prng_chance(g, 15) ? 3 + (int)prng_n(g, 40) : 1, k;
			int ref = prng_chance(g, (unsigned)prefuse);

			for (k = 0; k < burst; k++)
				plan_add(P, "step", x < 50 ? "add" : "delete", 2, (int64_t)0, (int64_t)ref);
		}
		break;
	}
	case 2:
		for (i = 0; i < n; i++) {
			unsigned x = prng_n(g, 100);
			int burst = prng_chance(g, 15) ? 3 + (int)prng_n(g, 30) : 1, k;
			int ref = prng_chance(g, (unsigned)prefuse);

			for (k = 0; k < burst; k++) {
				if (x < 50)
					plan_add(P, "step", "add", 2, (int64_t)0, (int64_t)ref);
				else
					plan_add(P, "step", "delete", 2, (int64_t)prng_n(g, 100000), (int64_t)ref);
			}
		}
		break;
	case 3:
		{
			int pk = (int)prng_n(g, 3);

			plan_add(P, "knob", "pool", 1, (int64_t)pk);
			if (prng_chance(g, pk == 2 ? 30 : 10)) {
				/* cross the cache size of the pool (1, 4 or 4096 objects) by a wide margin, release everything, start over */
				int big = (pk == 2 ? 4100 : 20) + (int)prng_n(g, 300), k;

				for (k = 0; k < big; k++)
					plan_add(P, "step", "malloc", 1, (int64_t)0);
				for (k = 0; k < big; k++)
					plan_add(P, "step", "free", 1, (int64_t)prng_n(g, 100000));
			}
		}
		for (i = 0; i < n; i++) {
			int burst = prng_chance(g, 25) ? 3 + (int)prng_n(g, 40) : 1, k;
			int isfree = prng_chance(g, 48);

			for (k = 0; k < burst; k++)
				plan_add(P, "step", isfree ? "free" : "malloc", 1, (int64_t)prng_n(g, 100000));
		}
		break;
	case 4:
		if (prng_chance(g, 40))
			plan_add(P, "step", "create", 2, (int64_t)prng_n(g, prng_chance(g, 30) ? 300 : 20), (int64_t)prng_n(g, 1000));
		for (i = 0; i < n; i++) {
			static const char * const ops[] = { "add", "add", "add", "add", "deletemin", "deletemin", "delete", "delete", "increase", "decrease", "increasemin" };

			plan_add(P, "step", ops[prng_n(g, 11)], 3, (int64_t)prng_n(g, 100000), (int64_t)prng_n(g, 100000), (int64_t)prng_chance(g, (unsigned)prefuse));
		}
		break;
	case 6:
		for (i = 0; i < n && i < 12; i++)
			plan_add(P, "step", "asprintf", 2, (int64_t)prng_n(g, 100000), (int64_t)prng_n(g, 100000));
		break;
	default:
		for (i = 0; i < n; i++) {
			static const char * const ops[] = { "add", "add", "add", "add", "delete", "increase", "increase", "getptr", "getptr", "getptr" };

			plan_add(P, "step", ops[prng_n(g, 10)], 3, (int64_t)prng_n(g, 100000), (int64_t)prng_n(g, 100000), (int64_t)prng_chance(g, (unsigned)prefuse));
		}
		break;
	}
}

/* =================== execution =================== */
void
engine_zygote_init(void)
{
}

void
engine_run(const struct plan * P)
{
	int i, step = 0;
	size_t nl, by;

	scenario = (int)plan_knob(P, "scenario", 0);
	if (scenario < 0)
		scenario = -scenario;
	scenario %= 7;
	snprintf(R->crash_prop, sizeof(R->crash_prop), "%s", scenario < 4 ? "C12" : scenario == 6 ? "C14" : "C13");
	simalloc_realloc_moves = (int)plan_knob(P, "realloc_moves", 0);
	simalloc_fill = (int)plan_knob(P, "fill", -1);
	simalloc_fill_seed = 99;
	eq_reclen = (size_t)plan_knob(P, "reclen", 8);
	if (eq_reclen < 1)
		eq_reclen = 1;
	if (eq_reclen > 64)
		eq_reclen = 64;
	pool_kind = (int)plan_knob(P, "pool", 1);
	cmp_wide = (int)plan_knob(P, "cmp_wide", 0);
	if (pool_kind < 0 || pool_kind > 2)
		pool_kind = 1;
	pool_osize = pool_kind == 0 ? sizeof(struct o1) : pool_kind == 1 ? sizeof(struct o4) : sizeof(struct o4096);
	if (scenario < 6)
		R->cnt[N_EA + scenario]++;
	(void)crash_or;

	for (i = 0; i < P->n; i++) {
		const struct pline * l = &P->l[i];
		size_t a, b;
		int ref;

		if (strcmp(l->kind, "step"))
			continue;
		simalloc_step(step++);
		a = l->nargs > 0 ? (size_t)l->a[0] : 0;
		b = l->nargs > 1 ? (size_t)l->a[1] : 0;
		ref = l->nargs > 2 ? (int)(l->a[2] & 1) : 0;
		R->steps++;
		switch (scenario) {
		case 0:
			if (!strcmp(l->name, "init"))
				ea_init(a, b);
			else if (!strcmp(l->name, "iter")) {
				if (EA != NULL) {
					R->cnt[N_OPS]++;
					ea_iter(a, b, l->nargs > 2 && l->a[2] > 0 ? (size_t)l->a[2] : 0);
					ea_check("iter");
				}
			} else
				ea_op(l->name, a, b, ref);
			break;
		case 1:
			eq_op(l->name, a, (int)(b & 1));
			break;
		case 2:
			map_op(l->name, a, (int)(b & 1));
			break;
		case 3:
			pool_op(l->name, a);
			break;
		case 4:
			heap_op(l->name, a, b, ref);
			break;
		case 6:
			asprintf_op(a, b);
			break;
		default:
			tq_op(l->name, a, b, ref);
			break;
		}
	}
	/* end of history: drain / release, then simulated exit */
	simalloc_step(step++);
	heap_drain();
	tq_drain();
	LIB_ENTER();
	elasticarray_free(EA);
	elasticqueue_free(EQ);
	seqptrmap_free(MAP);
	while (pool_n > 0)
		pool_free(pool_inuse[--pool_n]);
	LIB_LEAVE();
	simalloc_run_atexit();
	nl = simalloc_lib_live(&by);
	if (nl != 0) {
		if (sim_verbose)
			simalloc_dump_live();
		if (scenario == 3)
			sim_viol("C12.pool.exit", "exit", "%zu pool objects (%zu bytes) are still allocated after every object was returned and the exit handler ran", nl, by);
		sim_viol("C14.leak", "leak", "%zu library blocks (%zu bytes) still allocated after the structure was freed", nl, by);
	}
	R->cnt[N_REFUSED] = simalloc_nrefused_shrink;
	R->cnt[N_MOVED] = simalloc_nmoved;
	R->cnt[N_F_ALLOC] = (uint64_t)simalloc_failed;
	R->sim_ns = 0;
	R->nontrivial = (R->cnt[N_OPS] >= 8 && (simalloc_nmoved + simalloc_nrefused_shrink + (uint64_t)simalloc_failed >= 1));
}
