/*
 * entropy.c -- engine for C11 (HMAC_DRBG over OS entropy), C10 (Diffie-
 * Hellman; narrow) and the DH part of C20 (key material wiped).
 *
 * Real code: crypto_entropy.c entropy.c sha256.c crypto_dh.c
 * crypto_dh_group14.c insecure_memzero.c and libcrypto's BN.  Stubs: the
 * entropy device (open/read/close of /dev/urandom), the allocator of
 * libcrypto (CRYPTO_set_mem_functions), and -- for chosen blinding values --
 * crypto_entropy_read as seen from crypto_dh.c (link-time wrap).
 */
#define _GNU_SOURCE
#include <errno.h>
#include <fcntl.h>
#include <stdarg.h>
#include <stdint.h>
#include <stdio.h>
#include <stdlib.h>
#include <string.h>
#include <unistd.h>

#include <openssl/bn.h>
#include <openssl/crypto.h>
#include <openssl/err.h>

#include "crypto_dh.h"
#include "crypto_dh_group14.h"
#include "crypto_entropy.h"

#include "drbg_ref.h"
#include "sim.h"
#include "simalloc.h"

const char * engine_name = "entropy";
const char * const engine_props[] = { "C10", "C11", "C20", NULL };

enum {
	N_READS, N_BYTES, N_SESSIONS, N_RESEEDS, N_MULTI, N_FAILCALLS, N_F_OPEN, N_F_READERR, N_F_EINTR, N_F_EOF, N_F_SHORT,
	N_F_CLOSE, N_F_CLOSE_EINTR, N_F_ALLOC, N_RESEED_FAIL, N_INST_FAIL, N_RESEED_IN_MULTI, N_DH, N_DH_FAIL, N_DH_LEADZERO,
	N_DH_EDGE, N_DH_CHOSEN_BLIND, N_OSSL_ALLOC, N_OSSL_FAIL, N_FREED_SCANNED, N_ENUM, N_SANITY, N_ZERO_LEN, N_DH_PRIV_ALIAS, N_GIANT, N_RD_OK, N_RD_FAIL
};
const char * const engine_counters[] = {
	"entropy_read_calls", "bytes_generated", "device_sessions", "probe_reseeds", "probe_multi_chunk_requests",
	"probe_failed_calls", "fault_open_failed", "fault_read_error", "fault_read_eintr", "fault_read_eof", "fault_short_read",
	"fault_close_failed", "fault_close_eintr", "fault_alloc_failed", "probe_reseed_failed", "probe_instantiation_failed",
	"probe_reseed_inside_multi_chunk_request", "dh_operations", "probe_dh_failed_cleanly", "probe_dh_result_leading_zero",
	"probe_dh_edge_peer", "probe_dh_chosen_blinding", "openssl_allocations", "fault_openssl_alloc_failed",
	"freed_blocks_scanned", "probe_dh_failure_points_enumerated", "sanitychecks", "probe_zero_length_request",
	"probe_dh_private_value_inside_output_buffer", "probe_request_over_16MiB", "rdrand_draws", "fault_rdrand_no_data", NULL
};

/* ================= simulated entropy device ================= */
#define DEVFD 1000
static uint64_t devseed, devoff;
static int dev_open;
static const struct pline * devtape;
static int devtape_pos;
struct session { int ok; size_t requested, delivered; uint8_t bytes[64]; int failed; };
#define MAXSESS 64
static struct session sess[MAXSESS];
static int nsess;
static struct session * cur;

int __real_open(const char *, int, ...);
ssize_t __real_read(int, void *, size_t);
int __real_close(int);

static uint8_t
devbyte(uint64_t off)
{
	uint64_t x = devseed * 0x9e3779b97f4a7c15ULL + off * 0xd1342543de82ef95ULL + 99;

	x ^= x >> 31;
	x *= 0xbf58476d1ce4e5b9ULL;
	x ^= x >> 29;
	return ((uint8_t)(x >> 16));
}

static int
dev_directive(int * arg)
{
	int k = 0;

	*arg = 0;
	if (devtape != NULL && devtape_pos < devtape->ntok) {
		k = (int)devtape->tok[devtape_pos].v[0];
		*arg = devtape->tok[devtape_pos].n > 1 ? (int)devtape->tok[devtape_pos].v[1] : 0;
		devtape_pos++;
	}
	return (k < 0 ? -k : k);
}

int
__wrap_open(const char * path, int flags, ...)
{
	int k, arg;
	mode_t mode = 0;

	if (flags & O_CREAT) {
		va_list ap;

		va_start(ap, flags);
		mode = (mode_t)va_arg(ap, int);
		va_end(ap);
	}
	if (strcmp(path, "/dev/urandom") != 0)
		return (__real_open(path, flags, mode));
	k = dev_directive(&arg);
	if (nsess < MAXSESS) {
		cur = &sess[nsess++];
		memset(cur, 0, sizeof(*cur));
	} else {
		/* one request needs at most one (re)seed per 256 generate calls: this many opens in one call is a runaway loop */
		sim_viol("C11.entropy-consumed", "open-loop", "the entropy device was opened %d times during one request", nsess + 1);
		sim_internal("too many device sessions");
	}
	R->cnt[N_SESSIONS]++;
	if (k == 1) {
		R->cnt[N_F_OPEN]++;
		cur->failed = 1;
		TR(0x71, 0, 0, "open(/dev/urandom) -> -1 EMFILE");
		cur = NULL;
		errno = EMFILE;
		return (-1);
	}
	dev_open = 1;
	TR(0x70, 0, 0, "open(/dev/urandom) -> fd");
	return (DEVFD);
}

ssize_t
__wrap_read(int fd, void * buf, size_t len)
{
	int k, arg;
	size_t n, i;

	if (fd != DEVFD || !dev_open)
		return (__real_read(fd, buf, len));
	k = dev_directive(&arg);
	if (cur != NULL && cur->requested == 0)
		cur->requested = len;
	switch (k) {
	case 3:
		R->cnt[N_F_READERR]++;
		if (cur)
			cur->failed = 1;
		TR(0x73, len, 0, "read(urandom, %zu) -> -1 EIO", len);
		errno = EIO;
		return (-1);
	case 4:
		R->cnt[N_F_EINTR]++;
		if (cur)
			cur->failed = 1;
		TR(0x74, len, 0, "read(urandom, %zu) -> -1 EINTR", len);
		errno = EINTR;
		return (-1);
	case 5:
		R->cnt[N_F_EOF]++;
		if (cur)
			cur->failed = 1;
		TR(0x75, len, 0, "read(urandom, %zu) -> 0 (EOF)", len);
		return (0);
	default:
		break;
	}
	n = len;
	if (k == 2 && arg >= 1 && (size_t)arg < n) {
		n = (size_t)arg;
		R->cnt[N_F_SHORT]++;
	}
	for (i = 0; i < n; i++) {
		uint8_t b = devbyte(devoff++);

		((uint8_t *)buf)[i] = b;
		if (cur != NULL && cur->delivered < sizeof(cur->bytes))
			cur->bytes[cur->delivered] = b;
		if (cur != NULL)
			cur->delivered++;
	}
	TR(0x72, len, n, "read(urandom, %zu) -> %zu", len, n);
	return ((ssize_t)n);
}

int
__wrap_close(int fd)
{
	int k, arg;

	if (fd != DEVFD || !dev_open)
		return (__real_close(fd));
	k = dev_directive(&arg);
	if (k == 7) {
		R->cnt[N_F_CLOSE_EINTR]++;
		TR(0x77, 0, 0, "close(urandom) -> -1 EINTR");
		errno = EINTR;
		return (-1);
	}
	dev_open = 0;
	if (k == 6) {
		R->cnt[N_F_CLOSE]++;
		if (cur)
			cur->failed = 1;
		cur = NULL;
		TR(0x76, 0, 0, "close(urandom) -> -1 EIO");
		errno = EIO;
		return (-1);
	}
	if (cur != NULL && !cur->failed && cur->delivered == cur->requested && cur->requested > 0)
		cur->ok = 1;
	cur = NULL;
	TR(0x78, 0, 0, "close(urandom) -> 0");
	return (0);
}

/* ================= chosen blinding (config B): crypto_dh.c's view of crypto_entropy_read ================= */
int __real_crypto_entropy_read(uint8_t *, size_t);
static int blind_override;	/* 0 off; 1 zero; 2 0xff; 3 equal to priv; 4 fail */
static uint8_t blind_priv[32];
static uint8_t last_blinding[32];
static int last_blinding_known;

static int in_dh, dh_entropy_calls, dh_entropy_rc, dh_inplace;
static int dh_priv_alias;	/* 1 + offset: the private value is stored inside the buffer that receives the result */
static size_t dh_draw_len[8];
static const uint8_t * dh_cur_priv;
static void set_patterns(const uint8_t priv[32], const uint8_t * blinding);
static int low_entropy(const uint8_t * p);

int
__wrap_crypto_entropy_read(uint8_t * buf, size_t len)
{
	int rc;

	if (in_dh) {
		if (dh_entropy_calls < 8)
			dh_draw_len[dh_entropy_calls] = len;
		dh_entropy_calls++;
	}
	if (blind_override == 0) {
		rc = __real_crypto_entropy_read(buf, len);
	} else if (blind_override == 4) {
		rc = -1;
	} else {
		if (blind_override == 1)
			memset(buf, 0, len);
		else if (blind_override == 2)
			memset(buf, 0xff, len);
		else
			memcpy(buf, blind_priv, len < 32 ? len : 32);
		rc = 0;
	}
	if (in_dh) {
		dh_entropy_rc = rc;
		if (rc == 0 && len == 32) {
			/* from now on the blinding value and the blinded exponent are secrets of this call too */
			memcpy(last_blinding, buf, 32);
			last_blinding_known = 1;
			if (dh_cur_priv != NULL && !low_entropy(dh_cur_priv))
				set_patterns(dh_cur_priv, low_entropy(buf) ? NULL : buf);
		}
	}
	return (rc);
}

/* ================= RDRAND stand-in (build variant entropy_rdrand only) ================= */
#ifdef SIM_RDRAND
/*
 * The RDRAND instruction and its CPUID bit are the stubs here: crypto_entropy.c (compiled with
 * CPUSUPPORT_X86_RDRAND) calls these two functions exactly as it calls crypto_entropy_rdrand.c and
 * cpusupport_x86_rdrand.c.  Output is a seeded stream; the plan says which calls report "no data".
 */
#define RDQ 64
static struct { int ok; uint8_t b[32]; } rdq[RDQ];
static int rdq_n, rdq_used, rd_calls, rd_present = 1;
static const struct pline * rd_fail;

#include "cpusupport.h"

CPUSUPPORT_FEATURE_DECL(x86, rdrand)
{

	return (rd_present);
}

int
generate_seed_rdrand(unsigned int * buf, size_t len)
{
	int i, fail = 0;
	uint8_t * p = (uint8_t *)buf;

	if (rd_fail != NULL)
		for (i = 0; i < rd_fail->ntok; i++)
			if (rd_fail->tok[i].n > 0 && rd_fail->tok[i].v[0] == (int64_t)rd_calls)
				fail = 1;
	rd_calls++;
	if (len != 8)
		sim_internal("generate_seed_rdrand called for an unexpected length");
	if (rdq_n < RDQ) {
		rdq[rdq_n].ok = !fail;
		for (i = 0; i < 32; i++)
			rdq[rdq_n].b[i] = devbyte(0x5eed0000ULL + (uint64_t)rd_calls * 64 + (uint64_t)i);
		if (!fail)
			memcpy(p, rdq[rdq_n].b, 32);
		rdq_n++;
	}
	if (fail) {
		R->cnt[N_RD_FAIL]++;
		TR(0x0A, rd_calls - 1, 0, "RDRAND: no data (injected)");
		return (-1);
	}
	R->cnt[N_RD_OK]++;
	return (0);
}
#endif

/* ================= lockstep reference model of the generator ================= */
static struct drbg_ref M;
static int first_sess;		/* index of the first session of the call being judged */

/* In the RDRAND build each (re)seed is followed by one more state update with 32 bytes of RDRAND output, when there is any. */
static void
model_after_seed(void)
{
#ifdef SIM_RDRAND
	if (!rd_present || rdq_used >= rdq_n)
		return;
	if (rdq[rdq_used].ok)
		drbg_ref_extra(&M, rdq[rdq_used].b, 32);
	rdq_used++;
#endif
}

/*
 * Replay what the statement's policy implies for a request of len bytes,
 * feeding the model with the entropy the device actually delivered during the
 * call.  Returns the rc the call must have had; out gets the expected bytes.
 */
static int
model_read(uint8_t * out, size_t len, int af_in_call)
{
	int idx = first_sess;
	size_t pos = 0, nchunks = 0;

	if (!M.instantiated) {
		if (idx >= nsess) {
			if (!af_in_call)
				sim_viol("C11.entropy-consumed", "no-instantiation-read", "the generator produced its first output without reading 48 bytes of OS entropy");
			return (-1);
		}
		if (!sess[idx].ok) {
			R->cnt[N_INST_FAIL]++;
			return (-1);
		}
		if (sess[idx].requested != 48 || sess[idx].delivered != 48)
			sim_viol("C11.entropy-consumed", "instantiate-size", "instantiation consumed %zu bytes of OS entropy, the specification fixes 48", sess[idx].delivered);
		drbg_ref_instantiate(&M, sess[idx].bytes, 48);
		model_after_seed();
		idx++;
	}
	while (pos < len) {
		size_t n = len - pos > 65536 ? 65536 : len - pos;

		if (M.reseed_counter > 256) {
			if (idx >= nsess) {
				if (!af_in_call)
					sim_viol("C11.entropy-consumed", "no-reseed-read", "more than 256 generate calls since the last (re)seed but no fresh OS entropy was read");
				return (-1);
			}
			if (!sess[idx].ok) {
				R->cnt[N_RESEED_FAIL]++;
				first_sess = idx + 1;
				return (-1);
			}
			if (sess[idx].requested != 32 || sess[idx].delivered != 32)
				sim_viol("C11.entropy-consumed", "reseed-size", "a reseed consumed %zu bytes of OS entropy, the specification fixes 32", sess[idx].delivered);
			drbg_ref_reseed(&M, sess[idx].bytes, 32);
			model_after_seed();
			idx++;
			R->cnt[N_RESEEDS]++;
			if (nchunks > 0)
				R->cnt[N_RESEED_IN_MULTI]++;
		}
		drbg_ref_generate(&M, out + pos, n);
		pos += n;
		nchunks++;
	}
	if (nchunks > 1)
		R->cnt[N_MULTI]++;
	if (idx != nsess)
		sim_viol("C11.entropy-consumed", "extra-read", "the call opened the entropy device %d more time(s) than the reseed schedule requires", nsess - idx);
	return (0);
}

static void
do_read(size_t len, const struct pline * tape, int * tpos)
{
	uint8_t * buf = malloc(len + 1), * exp = malloc(len + 1);
	int rc, erc, f0 = simalloc_failed;

	memset(buf, 0x5a, len + 1);
	first_sess = nsess;
	devtape = tape;
	devtape_pos = *tpos;
	LIB_ENTER();
	rc = crypto_entropy_read(buf, len);
	LIB_LEAVE();
	*tpos = devtape_pos;
	devtape = NULL;
	R->cnt[N_READS]++;
	if (len == 0)
		R->cnt[N_ZERO_LEN]++;
	TR(0x01, len, rc, "crypto_entropy_read(%zu) -> %d", len, rc);
	erc = model_read(exp, len, simalloc_failed != f0);
	if (erc != 0) {
		R->cnt[N_FAILCALLS]++;
		if (rc == 0)
			sim_viol("C11.failure-rc", "succeeded", "the OS entropy source failed during the call but crypto_entropy_read(%zu) returned success", len);
	} else {
		if (rc != 0)
			sim_viol("C11.failure-rc", "failed", "crypto_entropy_read(%zu) failed although the OS entropy source worked", len);
		if (memcmp(buf, exp, len) != 0) {
			size_t i;

			for (i = 0; i < len && buf[i] == exp[i]; i++)
				;
			sim_viol("C11.output", "output", "output of crypto_entropy_read(%zu) differs from HMAC_DRBG(SHA-256) at byte %zu", len, i);
		}
		if (buf[len] != 0x5a)
			sim_viol("C11.output", "overrun", "crypto_entropy_read(%zu) wrote past the end of the buffer", len);
		R->cnt[N_BYTES] += len;
	}
	free(buf);
	free(exp);
}

/* ================= libcrypto allocator seam ================= */
struct ohdr { size_t size; uint64_t magic; };
#define OMAGIC 0x5ec7e7b10c0ffee5ULL
static int ossl_count_on, ossl_n, ossl_fail_at = -1, ossl_failed;
#define NPAT 8
static uint8_t pat[NPAT][16];
static const char * patname[NPAT];
static int npat;
static int secret_hits;
static char secret_hit_name[40];

void * __real_malloc(size_t);
void __real_free(void *);

static void
scan_block(const uint8_t * p, size_t n)
{
	int i;
	size_t o;

	R->cnt[N_FREED_SCANNED]++;
	if (n < 16)
		return;
	for (i = 0; i < npat; i++)
		for (o = 0; o + 16 <= n; o++)
			if (p[o] == pat[i][0] && memcmp(p + o, pat[i], 16) == 0) {
				if (secret_hits++ == 0)
					snprintf(secret_hit_name, sizeof(secret_hit_name), "%s", patname[i]);
				return;
			}
}

static void *
ossl_malloc(size_t num, const char * file, int line)
{
	struct ohdr * h;

	(void)file;
	(void)line;
	if (ossl_count_on) {
		R->cnt[N_OSSL_ALLOC]++;
		if (ossl_n++ == ossl_fail_at) {
			ossl_failed++;
			R->cnt[N_OSSL_FAIL]++;
			NOTE("[openssl] allocation #%d FAILS", ossl_n - 1);
			return (NULL);
		}
	}
	h = __real_malloc(sizeof(*h) + num);
	if (h == NULL)
		return (NULL);
	h->size = num;
	h->magic = OMAGIC;
	return (h + 1);
}

static void
ossl_free(void * p, const char * file, int line)
{
	struct ohdr * h;

	(void)file;
	(void)line;
	if (p == NULL)
		return;
	h = (struct ohdr *)p - 1;
	if (h->magic != OMAGIC)
		sim_internal("libcrypto freed a block that did not come from the seam");
	if (npat > 0)
		scan_block(p, h->size);
	h->magic = 0;
	__real_free(h);
}

static void *
ossl_realloc(void * p, size_t num, const char * file, int line)
{
	void * q;
	struct ohdr * h;

	if (p == NULL)
		return (ossl_malloc(num, file, line));
	if (num == 0) {
		ossl_free(p, file, line);
		return (NULL);
	}
	h = (struct ohdr *)p - 1;
	q = ossl_malloc(num, file, line);
	if (q == NULL)
		return (NULL);
	memcpy(q, p, h->size < num ? h->size : num);
	ossl_free(p, file, line);
	return (q);
}

void
engine_zygote_init(void)
{
	BIGNUM * a, * b, * m, * r;
	BN_CTX * ctx;

	/* Not library code under test: install the seam and warm libcrypto up before any fork. */
	if (!CRYPTO_set_mem_functions(ossl_malloc, ossl_realloc, ossl_free)) {
		fprintf(stderr, "CRYPTO_set_mem_functions refused\n");
		exit(2);
	}
	OPENSSL_init_crypto(OPENSSL_INIT_LOAD_CRYPTO_STRINGS, NULL);
	a = BN_new();
	b = BN_new();
	m = BN_new();
	r = BN_new();
	ctx = BN_CTX_new();
	BN_set_word(a, 7);
	BN_set_word(b, 65537);
	BN_set_word(m, 1000003);
	BN_mod_exp(r, a, b, m, ctx);
	BN_mod_mul(r, r, a, m, ctx);
	(void)ERR_error_string(ERR_get_error(), NULL);
	ERR_clear_error();
	BN_free(a);
	BN_free(b);
	BN_free(m);
	BN_free(r);
	BN_CTX_free(ctx);
	{
		/* the DRBG reference uses HMAC: warm that up too */
		struct drbg_ref D;
		uint8_t s[48] = { 0 }, o[8];

		drbg_ref_instantiate(&D, s, 48);
		drbg_ref_generate(&D, o, 8);
	}
}

/* ================= Diffie-Hellman ================= */
static void
hexcat(char * dst, size_t cap, const uint8_t * p, size_t n)
{
	size_t l = strlen(dst), i;

	for (i = 0; i < n && l + 2 < cap; i++, l += 2)
		snprintf(dst + l, cap - l, "%02x", p[i]);
}

static void
report_triple(const char * kind, const uint8_t * priv, const uint8_t * peer, size_t peerlen, const uint8_t * out, int rc)
{
	size_t l = strlen(R->out);

	if (l + 1200 >= sizeof(R->out))
		return;
	snprintf(R->out + l, sizeof(R->out) - l, "%s ", kind);
	hexcat(R->out, sizeof(R->out), priv, 32);
	strncat(R->out, " ", sizeof(R->out) - strlen(R->out) - 1);
	hexcat(R->out, sizeof(R->out), peer, peerlen);
	strncat(R->out, " ", sizeof(R->out) - strlen(R->out) - 1);
	if (rc == 0)
		hexcat(R->out, sizeof(R->out), out, 256);
	else
		strncat(R->out, "-", sizeof(R->out) - strlen(R->out) - 1);
	l = strlen(R->out);
	snprintf(R->out + l, sizeof(R->out) - l, " %d;", rc);
}

static void
set_patterns(const uint8_t priv[32], const uint8_t * blinding)
{
	uint8_t le[32], d[32];
	int i, borrow = 0;

	npat = 0;
	/* private value: big-endian bytes and little-endian (the limb order BN uses on this machine) */
	memcpy(pat[npat], priv, 16); patname[npat++] = "private value (big-endian, high half)";
	memcpy(pat[npat], priv + 16, 16); patname[npat++] = "private value (big-endian, low half)";
	for (i = 0; i < 32; i++)
		le[i] = priv[31 - i];
	memcpy(pat[npat], le, 16); patname[npat++] = "private exponent (BN limbs, low half)";
	memcpy(pat[npat], le + 16, 16); patname[npat++] = "private exponent (BN limbs, high half)";
	if (blinding != NULL) {
		uint8_t ble[32];

		for (i = 0; i < 32; i++)
			ble[i] = blinding[31 - i];
		memcpy(pat[npat], ble, 16); patname[npat++] = "blinding value (BN limbs, low half)";
		memcpy(pat[npat], ble + 16, 16); patname[npat++] = "blinding value (BN limbs, high half)";
		/* blinded exponent = 3*2^256 + priv - blinding: its low 256 bits */
		for (i = 0; i < 32; i++) {
			int v = (int)le[i] - (int)ble[i] - borrow;

			borrow = v < 0;
			d[i] = (uint8_t)(v & 0xff);
		}
		memcpy(pat[npat], d, 16); patname[npat++] = "blinded exponent (BN limbs, low half)";
		memcpy(pat[npat], d + 16, 16); patname[npat++] = "blinded exponent (BN limbs, high half)";
	}
	/* soundness: only patterns with enough entropy are searched for (no chance matches, e.g. all-zero) */
	{
		int j, k = 0;

		for (j = 0; j < npat; j++) {
			int seen[256] = { 0 }, distinct = 0;

			for (i = 0; i < 16; i++)
				if (!seen[pat[j][i]]++)
					distinct++;
			if (distinct >= 10) {
				if (k != j) {
					memcpy(pat[k], pat[j], 16);
					patname[k] = patname[j];
				}
				k++;
			}
		}
		npat = k;
	}
}

static int
low_entropy(const uint8_t * p)
{
	int i, distinct = 0;
	int seen[256] = { 0 };

	for (i = 0; i < 32; i++)
		if (!seen[p[i]]++)
			distinct++;
	return (distinct < 12);
}

static void
make_value(uint8_t * out, size_t n, int kind, uint64_t seed)
{
	size_t i;
	BIGNUM * p, * t;

	memset(out, 0, n);
	switch (kind) {
	case 0:	/* random */
		for (i = 0; i < n; i++)
			out[i] = (uint8_t)(devbyte(seed * 1315423911ULL + i + 5000000) ^ (seed >> (i % 8)));
		break;
	case 1:	/* zero */
		break;
	case 2:	/* all ones */
		memset(out, 0xff, n);
		break;
	case 3:	/* small: leading zero bytes */
		for (i = n - 1 - (seed % 8); i < n; i++)
			out[i] = (uint8_t)(devbyte(seed + i) | 1);
		break;
	case 4:	/* 1 */
		out[n - 1] = 1;
		break;
	case 5:	/* 2 */
		out[n - 1] = 2;
		break;
	case 6: case 7: case 8:	/* p-1, p, p+1 (n == 256) */
		p = BN_bin2bn(crypto_dh_group14, 256, NULL);
		t = BN_new();
		BN_set_word(t, 1);
		if (kind == 6)
			BN_sub(p, p, t);
		else if (kind == 8)
			BN_add(p, p, t);
		if (n == 256)
			BN_bn2binpad(p, out, 256);
		BN_free(p);
		BN_free(t);
		break;
	default:	/* leading zero byte then random */
		for (i = 1; i < n; i++)
			out[i] = devbyte(seed * 77 + i);
		break;
	}
}

/* One DH computation under the monitor; returns rc.  peer == NULL: generate_pub. */
static int
dh_once(const uint8_t priv[32], const uint8_t * peer, uint8_t out[256], const struct pline * tape, int * tpos, int expect_fail)
{
	int rc, f0 = simalloc_failed, erc = 0;
	uint8_t b2[32];
	const uint8_t * priv_arg = priv;

	first_sess = nsess;
	devtape = tape;
	devtape_pos = tpos ? *tpos : 0;
	last_blinding_known = 0;
	secret_hits = 0;
	dh_entropy_calls = 0;
	dh_entropy_rc = 0;
	dh_cur_priv = priv;
	if (!low_entropy(priv))
		set_patterns(priv, NULL);
	else
		npat = 0;
	ossl_n = 0;
	ossl_failed = 0;
	ossl_count_on = 1;
	in_dh = 1;
	if (dh_inplace && peer != NULL) {
		memcpy(out, peer, 256);		/* the caller computes in place: pub and key are the same buffer */
		peer = out;
	} else
		memset(out, 0xC3, 256);		/* a result that is not written at all must not look like a value */
	if (dh_priv_alias > 0) {
		/* the caller keeps its private value inside the buffer it passes for the result (no restrict in the prototype) */
		memcpy(out + dh_priv_alias - 1, priv, 32);
		priv_arg = out + dh_priv_alias - 1;
		R->cnt[N_DH_PRIV_ALIAS]++;
	}
	LIB_ENTER();
	rc = peer ? crypto_dh_compute(peer, priv_arg, out) : crypto_dh_generate_pub(out, priv_arg);
	LIB_LEAVE();
	in_dh = 0;
	ossl_count_on = 0;
	npat = 0;
	dh_cur_priv = NULL;
	if (tpos)
		*tpos = devtape_pos;
	devtape = NULL;
	R->cnt[N_DH]++;
	if (rc == 0) {
		uint64_t h;

		memcpy(&h, out + 248, 8);
		sim_trh(0x03, h, 0);
	}
	TR(0x02, peer != NULL, rc, "crypto_dh_%s -> %d (%d libcrypto allocations%s, blinding drawn %d time(s))", peer ? "compute" : "generate_pub", rc, ossl_n,
	    ossl_failed ? ", one failed" : "", dh_entropy_calls);
	/* keep the generator model in step: whatever the DH code drew went through the real generator */
	if (blind_override == 0 && dh_entropy_calls > 0) {
		int d;

		for (d = 0; d < dh_entropy_calls && d < 8; d++) {
			uint8_t * tmp = malloc(dh_draw_len[d] + 1);

			erc = model_read(tmp, dh_draw_len[d], simalloc_failed != f0);
			if (d == dh_entropy_calls - 1) {
				if ((erc != 0) != (dh_entropy_rc != 0))
					sim_viol("C11.failure-rc", "in-dh", "drawing the blinding returned %d, the entropy device says it should have %s", dh_entropy_rc, erc ? "failed" : "succeeded");
				if (erc == 0 && last_blinding_known && dh_draw_len[d] == 32 && memcmp(tmp, last_blinding, 32) != 0)
					sim_viol("C11.output", "in-dh", "the blinding drawn inside the DH computation differs from HMAC_DRBG(SHA-256)");
			}
			free(tmp);
			if (erc != 0)
				break;
			first_sess = nsess;	/* (sessions are attributed to the first draw that needs them) */
		}
	}
	(void)b2;
	if (blind_override != 0)
		R->cnt[N_DH_CHOSEN_BLIND]++;
	/*
	 * The statement promises exact values and independence of the blinding.  It does not say how often the
	 * blinding is drawn nor what happens when entropy or memory runs out, so only a failure *without any cause*
	 * is judged here (no result at all contradicts "the public value is ...").
	 */
	if (rc != 0 && !ossl_failed && !(dh_entropy_calls > 0 && dh_entropy_rc != 0) && simalloc_failed == f0)
		sim_viol("C10.failure-rc", "spurious", "the DH computation failed although nothing failed underneath");
	(void)expect_fail;
	if (rc != 0)
		R->cnt[N_DH_FAIL]++;
	if (secret_hits > 0)
		sim_viol("C20.freed-secret", "dh", "a block released by the DH computation (rc %d) still contained the %s", rc, secret_hit_name);
	if (rc == 0 && out[0] == 0)
		R->cnt[N_DH_LEADZERO]++;
	return (rc);
}

static void
do_dh(const struct pline * l)
{
	int pk = (int)(l->a[0] < 0 ? -l->a[0] : l->a[0]) % 4, ek = (int)(l->a[1] < 0 ? -l->a[1] : l->a[1]) % 10;
	uint64_t ps = (uint64_t)l->a[2], es = (uint64_t)l->a[3];
	int ofail = l->nargs > 4 ? (int)l->a[4] : -1, bo = l->nargs > 5 ? (int)(l->a[5] < 0 ? -l->a[5] : l->a[5]) % 5 : 0;
	uint8_t privA[32], privB[32], peer[256], pubA[256], pubB[256], k1[256], k2[256], k3[256];
	int tpos = 0, rc;
	static const int pkinds[] = { 0, 1, 2, 3 };

	make_value(privA, 32, pkinds[pk], ps);
	make_value(privB, 32, 0, ps + 17);
	make_value(peer, 256, ek, es);
	if (ek != 0)
		R->cnt[N_DH_EDGE]++;
	memcpy(blind_priv, privA, 32);
	/* 0. sometimes the very first libcrypto operation of the process is one that fails */
	if (l->nargs > 6 && l->a[6] >= 0 && R->cnt[N_DH] == 0) {
		ossl_fail_at = (int)(l->a[6] % 70);
		(void)dh_once(privA, (l->a[6] & 64) ? NULL : peer, k3, l, &tpos, 1);
		ossl_fail_at = -1;
	}
	/* 0b. in half of the runs the first Diffie-Hellman operation of the process is a shared-key computation, not a key generation */
	if ((privB[7] & 1) && R->cnt[N_DH] == 0) {
		blind_override = 0;
		rc = dh_once(privB, peer, k3, l, &tpos, 0);
		report_triple("K", privB, peer, 256, k3, rc);
	}
	/* 1. public values; agreement between two parties */
	blind_override = 0;
	rc = dh_once(privA, NULL, pubA, l, &tpos, 0);
	report_triple("P", privA, (const uint8_t *)"\x02", 1, pubA, rc);
	if (rc == 0) {
		if (dh_once(privB, NULL, pubB, l, &tpos, 0) == 0) {
			int r1 = dh_once(privA, pubB, k1, l, &tpos, 0), r2 = dh_once(privB, pubA, k2, l, &tpos, 0);

			if (r1 == 0 && r2 == 0 && memcmp(k1, k2, 256) != 0)
				sim_viol("C10.agree", "agree", "the two parties derived different shared keys");
			LIB_ENTER();
			if (crypto_dh_sanitycheck(pubA) != 0 || crypto_dh_sanitycheck(pubB) != 0)
				sim_viol("C10.sanity", "own-pub", "the sanity check rejected a freshly generated public value");
			LIB_LEAVE();
		}
	}
	/* 2. shared key with the given peer value, under several blindings: the result may not depend on them */
	rc = dh_once(privA, peer, k1, l, &tpos, 0);
	report_triple("K", privA, peer, 256, k1, rc);
	if (rc == 0) {
		int b;

		if (dh_once(privA, peer, k2, l, &tpos, 0) == 0 && memcmp(k1, k2, 256) != 0)
			sim_viol("C10.blinding-dependent", "drbg", "the same (private, peer) pair gave different results under two blinding values drawn from the generator");
		for (b = 1; b <= 3; b++) {
			if (bo != 0 && b != bo)
				continue;
			blind_override = b;
			if (dh_once(privA, peer, k3, l, NULL, 0) == 0 && memcmp(k1, k3, 256) != 0)
				sim_viol("C10.blinding-dependent", "chosen", "the result changed when the blinding value was %s", b == 1 ? "all zero" : b == 2 ? "all ones" : "equal to the private value");
			blind_override = 0;
		}
	}
	/* 3. failure paths: entropy failure and one failing libcrypto allocation */
	blind_override = 4;
	(void)dh_once(privA, peer, k3, l, NULL, 1);
	blind_override = 0;
	if (ofail >= 0) {
		ossl_fail_at = ofail;
		(void)dh_once(privA, peer, k3, l, &tpos, 1);
		ossl_fail_at = -1;
	}
	/* 4. second use after a failure: a failed call may not poison the next one (same process, same objects) */
	if (bo & 1) {
		blind_override = 4;
		(void)dh_once(privA, NULL, k3, l, NULL, 1);
		blind_override = 0;
	} else if (ofail >= 0) {
		ossl_fail_at = ofail % 12;
		(void)dh_once(privA, NULL, k3, l, &tpos, 1);
		ossl_fail_at = -1;
	}
	rc = dh_once(privB, NULL, k3, l, &tpos, 0);
	report_triple("P", privB, (const uint8_t *)"\x02", 1, k3, rc);
	dh_inplace = 1;
	rc = dh_once(privB, peer, k3, l, &tpos, 0);
	dh_inplace = 0;
	report_triple("K", privB, peer, 256, k3, rc);
	/* 5. the private value lives inside the output buffer (start, middle, end) */
	{
		static const int offs[] = { 0, 31, 100, 224 };

		dh_priv_alias = 1 + offs[privB[5] & 3];
		rc = dh_once(privB, NULL, k3, l, &tpos, 0);
		report_triple("P", privB, (const uint8_t *)"\x02", 1, k3, rc);
		dh_priv_alias = 1 + offs[privB[6] & 3];
		rc = dh_once(privB, peer, k3, l, &tpos, 0);
		report_triple("K", privB, peer, 256, k3, rc);
		dh_priv_alias = 0;
	}
}

static void
do_dhenum(const struct pline * l)
{
	uint8_t priv[32], peer[256], key[256];
	int n, k;

	make_value(priv, 32, 0, (uint64_t)l->a[0]);
	make_value(peer, 256, 0, (uint64_t)l->a[1]);
	int which;

	/*
	 * Every libcrypto allocation of one computation fails once (shared key first, then public value).  A call
	 * that reports success in spite of the failure must still deliver the exact value: the failure-free result
	 * (itself checked against the big-integer oracle) is the reference.
	 */
	for (which = 0; which < 2; which++) {
		const uint8_t * pe = which == 0 ? peer : NULL;
		uint8_t key2[256];
		int rc;

		rc = dh_once(priv, pe, key, NULL, NULL, 0);
		report_triple(pe ? "K" : "P", priv, pe ? pe : (const uint8_t *)"\x02", pe ? 256 : 1, key, rc);
		if (rc != 0)
			continue;
		n = ossl_n;
		for (k = 0; k < n && k < 200; k++) {
			ossl_fail_at = k;
			rc = dh_once(priv, pe, key2, NULL, NULL, 1);
			ossl_fail_at = -1;
			R->cnt[N_ENUM]++;
			if (rc == 0 && memcmp(key2, key, 256) != 0)
				sim_viol("C10.value", "after-failed-allocation", "libcrypto allocation %d of %d failed, the call still reported success, but the %s differs from the failure-free result",
				    k, n, pe ? "shared key" : "public value");
		}
	}
}

static void
do_sanity(const struct pline * l)
{
	int ek = (int)(l->a[0] < 0 ? -l->a[0] : l->a[0]) % 10, rc, below, nalloc, k;
	uint8_t v[256];

	make_value(v, 256, ek, (uint64_t)l->a[1]);
	if (l->nargs > 2 && l->a[2] > 0 && ek >= 6 && ek <= 8) {
		/* perturb one byte far from the top: still >= p or < p as memcmp says */
		v[255 - (l->a[2] % 200)] ^= (uint8_t)(1 + l->a[2] % 200);
	}
	ossl_n = 0;
	ossl_failed = 0;
	ossl_count_on = 1;
	LIB_ENTER();
	rc = crypto_dh_sanitycheck(v);
	LIB_LEAVE();
	ossl_count_on = 0;
	nalloc = ossl_n;
	R->cnt[N_SANITY]++;
	below = (memcmp(v, crypto_dh_group14, 256) < 0);	/* big-endian equal-length strings: numeric order */
	{
		/* independent of memcmp: compare as numbers with BN */
		BIGNUM * a = BN_bin2bn(v, 256, NULL), * p = BN_bin2bn(crypto_dh_group14, 256, NULL);

		below = (BN_cmp(a, p) < 0);
		BN_free(a);
		BN_free(p);
	}
	report_triple("S", (const uint8_t *)"\0\0\0\0\0\0\0\0\0\0\0\0\0\0\0\0\0\0\0\0\0\0\0\0\0\0\0\0\0\0\0\0", v, 256, v, rc == 0 ? 0 : 1);
	if ((rc == 0) != below)
		sim_viol("C10.sanity", "sanity", "the sanity check %s a value that is %s the group prime", rc == 0 ? "accepted" : "rejected", below ? "below" : "not below");
	/* should the check allocate (the pinned code does not): no failing allocation may turn "not below p" into "accepted" */
	for (k = 0; k < nalloc && k < 64 && !below; k++) {
		int rc2;

		ossl_n = 0;
		ossl_fail_at = k;
		ossl_count_on = 1;
		LIB_ENTER();
		rc2 = crypto_dh_sanitycheck(v);
		LIB_LEAVE();
		ossl_count_on = 0;
		ossl_fail_at = -1;
		if (rc2 == 0)
			sim_viol("C10.sanity", "accepted-under-failure", "with libcrypto allocation %d of %d failing, the sanity check accepted a value that is not below the group prime", k, nalloc);
	}
}

/* ================= generation ================= */
static void
gen_devtape(struct prng * g, struct pline * l, int n, int pfault)
{
	int i;

	for (i = 0; i < n; i++) {
		if ((int)prng_n(g, 100) < pfault) {
			switch (prng_n(g, 8)) {
			case 0: pline_tok(l, 1, (int64_t)1); break;
			case 1: pline_tok(l, 1, (int64_t)3); break;
			case 2: pline_tok(l, 1, (int64_t)4); break;
			case 3: pline_tok(l, 1, (int64_t)5); break;
			case 4: pline_tok(l, 1, (int64_t)6); break;
			case 5: pline_tok(l, 1, (int64_t)7); break;
			default:
				pline_tok(l, 2, (int64_t)2, (int64_t)(1 + prng_n(g, 47)));
				/* what follows a partial read matters: end-of-file, an error or an interruption right after it */
				if (prng_chance(g, 40) && i + 1 < n) {
					static const int64_t nx[] = { 5, 5, 3, 4 };

					pline_tok(l, 1, nx[prng_n(g, 4)]);
					i++;
				}
				break;
			}
		} else
			pline_tok(l, 1, (int64_t)0);
	}
}

void
engine_gen(struct plan * P, uint64_t seed, struct prng * g)
{
	int c10 = !strcmp(sim_prop, "C10"), c20 = !strcmp(sim_prop, "C20");
	int faulty = prng_chance(g, 70), pf = faulty ? 3 + (int)prng_n(g, 25) : 0, n, i;
	struct pline * l;
	static const int64_t lens[] = { 0, 1, 31, 32, 33, 48, 64, 100, 255, 256, 1000, 65535, 65536, 65537, 131072, 200000 };

	(void)seed;
	plan_add(P, "knob", "devseed", 1, (int64_t)prng_n(g, 1000000000));
	/* (used by the RDRAND build only) is the instruction there, and which of its uses report "no data" */
	plan_add(P, "knob", "rd_present", 1, (int64_t)!prng_chance(g, 10));
	if (prng_chance(g, 35)) {
		int q, nq = 1 + (int)prng_n(g, 3);

		l = plan_add(P, "rdfail", "0", 0);
		for (q = 0; q < nq; q++)
			pline_tok(l, 1, (int64_t)prng_n(g, prng_chance(g, 60) ? 3 : 8));
	}
	if (c10 || c20) {
		n = 1 + (int)prng_n(g, 2);
		if (prng_chance(g, 50)) {
			l = plan_add(P, "step", "read", 1, lens[prng_n(g, 12)]);
			gen_devtape(g, l, 6, pf);
		}
		if (prng_chance(g, 30)) {
			/* bring the generator close to a reseed so that blinding draws straddle it */
			l = plan_add(P, "step", "burst", 2, (int64_t)(250 + prng_n(g, 8)), (int64_t)1);
			gen_devtape(g, l, 9, 0);
		}
		for (i = 0; i < n; i++) {
			l = plan_add(P, "step", "dh", 7, (int64_t)prng_n(g, 4), (int64_t)(prng_chance(g, 50) ? 0 : prng_n(g, 10)),
			    (int64_t)prng_n(g, 1000000), (int64_t)prng_n(g, 1000000), (prng_chance(g, 70) ? (int64_t)prng_n(g, 70) : (int64_t)-1),
			    (int64_t)prng_n(g, 4), (prng_chance(g, 35) ? (int64_t)prng_n(g, 128) : (int64_t)-1));
			gen_devtape(g, l, 12, pf / 2);
		}
		for (i = 0; i < 3; i++)
			plan_add(P, "step", "sanity", 3, (int64_t)(prng_chance(g, 60) ? 6 + prng_n(g, 3) : prng_n(g, 10)), (int64_t)prng_n(g, 1000000),
			    (int64_t)(prng_chance(g, 50) ? prng_n(g, 100000) : 0));
		if (prng_chance(g, c20 ? 25 : 4))
			plan_add(P, "step", "dhenum", 2, (int64_t)prng_n(g, 1000000), (int64_t)prng_n(g, 1000000));
		return;
	}
	n = 1 + (int)prng_n(g, 14);
	if (prng_n(g, 600) == 0) {
		/*
		 * the very first request of the process is larger than 256 generate calls, and the reseed that falls
		 * due inside it fails (second session of the entropy device): the call fails after the generator was
		 * instantiated; what follows must go on from that state
		 */
		l = plan_add(P, "step", "read", 2, (int64_t)prng_n(g, 70000), (int64_t)1);
		pline_tok(l, 1, (int64_t)0);
		pline_tok(l, 1, (int64_t)0);
		pline_tok(l, 1, (int64_t)0);
		pline_tok(l, 1, (int64_t)(prng_chance(g, 50) ? 1 : 0));
		pline_tok(l, 1, (int64_t)3);
	}
	for (i = 0; i < n; i++) {
		unsigned x = prng_n(g, 100);

		if (x < 55) {
			int64_t len = prng_chance(g, 60) ? lens[prng_n(g, 16)] : (int64_t)prng_n(g, 3000);

			if (prng_n(g, 3000) < 1)
				l = plan_add(P, "step", "read", 2, (int64_t)prng_n(g, 70000), (int64_t)1);	/* 16 MiB + a little */
			else
				l = plan_add(P, "step", "read", 1, len);
			gen_devtape(g, l, 9, pf);
		} else if (x < 85) {
			/* long runs of small requests crossing reseed intervals */
			int64_t cnt = prng_chance(g, 50) ? 200 + (int64_t)prng_n(g, 120) : (prng_chance(g, 50) ? 500 + (int64_t)prng_n(g, 60) : (int64_t)prng_n(g, 40));

			l = plan_add(P, "step", "burst", 2, cnt, (int64_t)(prng_chance(g, 70) ? 1 + prng_n(g, 40) : 0));
			gen_devtape(g, l, 12, pf);
		} else {
			/* a huge request: several generate calls, possibly across a reseed */
			l = plan_add(P, "step", "read", 1, (int64_t)(65536 * (1 + prng_n(g, 5)) + prng_n(g, 3) - 1));
			gen_devtape(g, l, 9, pf);
		}
	}
}

/* ================= execution ================= */
void
engine_run(const struct plan * P)
{
	int i, step = 0;

	snprintf(R->crash_prop, sizeof(R->crash_prop), "%s", "");
	devseed = (uint64_t)plan_knob(P, "devseed", 1);
#ifdef SIM_RDRAND
	rd_fail = plan_find(P, "rdfail", "0");
	rd_present = (int)plan_knob(P, "rd_present", 1) != 0;
#endif
	for (i = 0; i < P->n; i++) {
		const struct pline * l = &P->l[i];
		int tpos = 0;

		if (strcmp(l->kind, "step"))
			continue;
		simalloc_step(step++);
		R->steps++;
		nsess = 0;
		first_sess = 0;
		if (!strcmp(l->name, "read")) {
			size_t len = l->nargs > 0 && l->a[0] > 0 ? (size_t)l->a[0] : 0;

			if (l->nargs > 1 && l->a[1] == 1) {
				/* more than 256 generate calls in one request (over 16 MiB) */
				len = (size_t)65536 * 256 + 1 + len % 70000;
				R->cnt[N_GIANT]++;
			} else if (len > 400000)
				len = 400000;
			do_read(len, l, &tpos);
		} else if (!strcmp(l->name, "burst")) {
			int64_t cnt = l->nargs > 0 ? l->a[0] : 0, k;
			size_t len = l->nargs > 1 && l->a[1] > 0 ? (size_t)l->a[1] : 0;

			if (cnt > 1200)
				cnt = 1200;
			if (len > 4096)
				len = 4096;
			for (k = 0; k < cnt; k++) {
				nsess = 0;
				do_read(len, l, &tpos);
			}
		} else if (!strcmp(l->name, "dh") && l->nargs >= 4) {
			do_dh(l);
		} else if (!strcmp(l->name, "dhenum") && l->nargs >= 2) {
			do_dhenum(l);
		} else if (!strcmp(l->name, "sanity") && l->nargs >= 2) {
			do_sanity(l);
		}
	}
	R->cnt[N_F_ALLOC] = (uint64_t)simalloc_failed;
	R->sim_ns = 0;
	R->nontrivial = (R->cnt[N_READS] + R->cnt[N_DH] >= 2) &&
	    (R->cnt[N_RESEEDS] + R->cnt[N_FAILCALLS] + R->cnt[N_F_SHORT] + R->cnt[N_DH] + R->cnt[N_MULTI] >= 1);
}
