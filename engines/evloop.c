/*
 * evloop.c -- engine for C04 / C05 (and the event-loop part of C14).
 *
 * Real code under test: events.c events_immediate.c events_network.c
 * events_network_selectstats.c events_timer.c timerqueue.c ptrheap.c
 * elasticarray.c mpool.h monoclock.c.  Stubs: poll(2), clock_gettime(2),
 * allocator policy.  See DESIGN.md section 4 (C04, C05).
 */
#define _GNU_SOURCE
#include <sys/time.h>

#include <errno.h>
#include <poll.h>
#include <stdint.h>
#include <stdio.h>
#include <stdlib.h>
#include <string.h>
#include <time.h>

#include "events.h"

#include "sim.h"
#include "simalloc.h"

const char * engine_name = "evloop";
const char * const engine_props[] = { "C04", "C05", "C14", NULL };

enum {
	N_CB, N_CB_IMM, N_CB_NET, N_CB_TMR, N_POLL, N_BLOCK, N_EINTR, N_SIGNAL, N_SPUR, N_HUP,
	N_POLLERR, N_WORK, N_ENV, N_ACT_IN_CB, N_CANCEL_IN_CB, N_SELF_FD, N_EEXIST, N_ENOENT,
	N_POLLGROW, N_ALLOCFAIL, N_RUNS, N_SPIN, N_RET_NONZERO, N_INTR_CB, N_INTR_OUT, N_RESET,
	N_TIE, N_RW_SAME_FD, N_DRAIN_FIRED, N_SIGCLK, N_REG_FAIL, N_RUN_FAIL, N_MAXPEND, N_CLOCKFAIL, N_NOMONO, N_FLOOD
};
const char * const engine_counters[] = {
	"callbacks", "cb_immediate", "cb_socket", "cb_timer", "polls", "poll_blocked", "fault_eintr",
	"fault_signal_in_poll", "fault_spurious_ready", "fault_hup_err_reported", "fault_poll_hard_error",
	"clock_work_advance", "env_events", "actions_in_callbacks", "probe_cancel_in_callback",
	"probe_self_fd_op_in_callback", "probe_eexist", "probe_enoent", "probe_pollfd_over_16",
	"fault_alloc_failed", "events_run_calls", "events_spin_calls", "probe_nonzero_return",
	"probe_interrupt_in_callback", "probe_interrupt_outside", "probe_timer_reset", "probe_timer_tie",
	"probe_read_and_write_same_fd", "probe_drain_fired", "fault_signal_at_clock_read",
	"probe_register_failed", "probe_run_failed", "probe_max_pending", "fault_clock_read_failed",
	"runs_without_monotonic_clock", "probe_over_4096_immediates_pending", NULL
};

/* ---------- ops ---------- */
enum {
	OP_REG_IMM, OP_REG_NET, OP_CANCEL_NET, OP_REG_TMR, OP_CANCEL_IMM, OP_CANCEL_TMR, OP_RESET_TMR,
	OP_ENV, OP_INTR, OP_RET, OP_WORK, OP_SETDONE, OP_REG_NET_SELF, OP_CANCEL_NET_SELF,
	OP_CANCEL_NET_SLOT, OP_REREG_NET, OP_NOP, OP_NOPS
};
static const char * const opname[] = {
	"reg_imm", "reg_net", "cancel_net", "reg_tmr", "cancel_imm", "cancel_tmr", "reset_tmr",
	"env", "intr", "ret", "work", "setdone", "reg_net_self", "cancel_net_self",
	"cancel_net_slot", "rereg_net", "nop"
};

/* ---------- sim clock ---------- */
static uint64_t now_ns = 1000ULL * 1000000000ULL;
static const uint64_t T0_NS = 1000ULL * 1000000000ULL;
static uint64_t tick_ns;
static int clock_reads_in_step, sig_at_clock;
static uint64_t now_us(void) { return (now_ns / 1000); }

/* ---------- world ---------- */
#define MAXFD 40
static int fdnum[MAXFD];
static int nfdu;
static int w_rd[MAXFD], w_wr[MAXFD], w_hup[MAXFD];	/* w_hup: 0 none, 1 HUP, 2 ERR */
struct envev { uint64_t at; int fi, what, val, used; };
#define MAXENV 256
static struct envev evq[MAXENV];
static int nev;

static int
fidx(int fd)
{
	int i;

	for (i = 0; i < nfdu; i++)
		if (fdnum[i] == fd)
			return (i);
	return (-1);
}

/* ---------- model ---------- */
enum { K_IMM, K_NET, K_TMR };
struct reg {
	int live, kind, id;
	void * cookie;
	int prio;
	uint64_t seq;
	int fi, dir, eligible, reported_latest;
	uint64_t dl_lo, dl_hi, timeo_us;
	int dbl;
	int al;
};
#define NREG 9000
static struct reg regs[NREG];
static int nreg;
static uint64_t seqctr;
static int netreg[MAXFD][2];
static int hup_latest[MAXFD];
static int budget;
static const struct plan * PLAN;
static int draining;

/* last poll array (for slot-directed cancels) */
static int lastpoll_fd[64], lastpoll_n;

/* per-call state */
static int in_run, cb_in_call, intr_in_call, intr_pending_outside, stop_seen, wake_pending;
static int have_nonzero, nonzero_rc, hard_err_in_call, allocfail_in_call, spin_done, spin_active;
static int done_set_in_call;
static int polls_in_call, cb_since_poll;
static uint64_t X_ns;
static int in_cb;
static struct reg * cur_cb;
static const struct pline * cur_tape;
static int tape_pos;

static int the_callback(void *);

static int
pending_imm(void)
{
	int i;

	for (i = 0; i < nreg; i++)
		if (regs[i].live && regs[i].kind == K_IMM)
			return (1);
	return (0);
}

static int
n_pending(void)
{
	int i, n = 0;

	for (i = 0; i < nreg; i++)
		if (regs[i].live)
			n++;
	return (n);
}

static int
have_timer(uint64_t * min_hi)
{
	int i, h = 0;
	uint64_t m = ~0ULL;

	for (i = 0; i < nreg; i++)
		if (regs[i].live && regs[i].kind == K_TMR) {
			h = 1;
			if (regs[i].dl_hi < m)
				m = regs[i].dl_hi;
		}
	*min_hi = m;
	return (h);
}

static int prev_first_select, last_poll_plain_eintr, inside_poll;
static int in_first_select;	/* the poll being answered is the select that starts a pass of the loop */

static void
note_interrupt(void)
{

	/* Called after events_interrupt() was invoked, from whatever context. */
	if (in_run) {
		intr_in_call = 1;
		if (!in_cb && stop_seen == 0) {
			/*
			 * A request made while no callback runs.  If it arrives inside the select that starts a
			 * pass of the loop, the loop tests the flag before it dispatches anything: nothing more
			 * may run.  If it arrives inside the zero-timeout re-poll (or at a clock read), the
			 * dispatch that follows is not guarded: one more callback may run.
			 */
			stop_seen = (inside_poll && in_first_select) ? 1 : 2;
		}
	} else
		intr_pending_outside = 1;
}

/* clock faults: the reads (counted over the whole run) that fail hard; a process without a monotonic clock */
static const struct pline * clk_fail;
static int clk_reads, clock_failures, no_monotonic;
#define CF_SINCE(before) (clock_failures != (before))

int
__wrap_clock_gettime(clockid_t c, struct timespec * ts)
{
	int i;

	if (c == CLOCK_MONOTONIC && no_monotonic) {
		errno = EINVAL;		/* the documented fallback: the library must go on with CLOCK_REALTIME */
		return (-1);
	}
	if (clk_fail != NULL && !draining) {
		for (i = 0; i < clk_fail->ntok; i++)
			if (clk_fail->tok[i].n > 0 && clk_fail->tok[i].v[0] == (int64_t)clk_reads) {
				static const int ce[] = { EIO, EPERM, EFAULT, EPERM };

				clk_reads++;
				clock_failures++;
				R->cnt[N_CLOCKFAIL]++;
				errno = ce[(clk_reads + (int)(clk_fail->tok[i].n > 1 ? clk_fail->tok[i].v[1] : 0)) & 3];
				TR(0xA2, clk_reads - 1, errno, "clock_gettime -> -1 errno %d (injected)", errno);
				return (-1);
			}
	}
	clk_reads++;
	now_ns += tick_ns;
	if (c == CLOCK_REALTIME) {
		/*
		 * The wall clock is not the monotonic clock: it reads some 54 years more.  A process that has to use
		 * it throughout (no monotonic clock) sees consistent times; one that mixes the two does not.
		 */
		uint64_t wall = now_ns + 1700000000ULL * 1000000000ULL;

		ts->tv_sec = (time_t)(wall / 1000000000ULL);
		ts->tv_nsec = (long)(wall % 1000000000ULL);
		return (0);
	}
	if (sig_at_clock > 0 && ++clock_reads_in_step == sig_at_clock && in_run) {
		R->cnt[N_SIGCLK]++;
		TR(0xA1, 0, 0, "signal at clock read -> events_interrupt()");
		events_interrupt();
		note_interrupt();
	}
	ts->tv_sec = (time_t)(now_ns / 1000000000ULL);
	ts->tv_nsec = (long)(now_ns % 1000000000ULL);
	return (0);
}

static void
apply_env(void)
{
	int i;

	for (i = 0; i < nev; i++)
		if (!evq[i].used && evq[i].at <= now_ns) {
			evq[i].used = 1;
			R->cnt[N_ENV]++;
			if (evq[i].what == 0)
				w_rd[evq[i].fi] = evq[i].val;
			else if (evq[i].what == 1)
				w_wr[evq[i].fi] = evq[i].val;
			else
				w_hup[evq[i].fi] = evq[i].val ? (evq[i].what == 2 ? 1 : 2) : 0;
			TR(0xE1, evq[i].fi * 8 + evq[i].what * 2 + evq[i].val, 0,
			    "env: fd=%d %s=%d", fdnum[evq[i].fi],
			    evq[i].what == 0 ? "readable" : evq[i].what == 1 ? "writable" :
			    evq[i].what == 2 ? "hup" : "err", evq[i].val);
		}
}

static int
next_env(uint64_t * at)
{
	int i, h = 0;
	uint64_t m = ~0ULL;

	for (i = 0; i < nev; i++)
		if (!evq[i].used && evq[i].at < m) {
			m = evq[i].at;
			h = 1;
		}
	*at = m;
	return (h);
}

/* ---------- operations ---------- */
static struct reg *
newreg(int kind, int al)
{
	struct reg * r;

	if (nreg >= NREG)
		return (NULL);
	r = &regs[nreg];
	memset(r, 0, sizeof(*r));
	r->kind = kind;
	r->id = nreg;
	r->seq = ++seqctr;
	r->al = draining ? -1 : al;
	nreg++;
	return (r);
}

static int
count_pending_update(void)
{
	uint64_t n = (uint64_t)n_pending();

	if (n > R->cnt[N_MAXPEND])
		R->cnt[N_MAXPEND] = n;
	return (0);
}

/* Did an injected allocation failure happen since `before'? */
#define AF_SINCE(before) (simalloc_failed != (before))

static void
op_reg_imm(int prio, int al)
{
	struct reg * r;
	int f0, attempt;

	if (budget-- <= 0)
		return;
	if ((r = newreg(K_IMM, al)) == NULL)
		return;
	r->prio = ((prio % 32) + 32) % 32;
	for (attempt = 0; attempt < 2; attempt++) {
		f0 = simalloc_failed;
		LIB_ENTER();
		r->cookie = events_immediate_register(the_callback, r, r->prio);
		LIB_LEAVE();
		if (r->cookie != NULL)
			break;
		if (!AF_SINCE(f0))
			sim_viol("C04.retval", "imm-register-null", "events_immediate_register failed without an allocation failure");
		R->cnt[N_REG_FAIL]++;
		TR(0x1F, r->prio, 0, "reg_imm prio=%d -> NULL (allocation failed)", r->prio);
		if (sim_af_persist)
			return;		/* nothing registered: r->live stays 0 */
		/* single failure: the same registration must succeed when retried */
		if (attempt == 1)
			sim_viol("C14.retry", "imm", "events_immediate_register failed again with a healthy allocator");
	}
	r->seq = ++seqctr;
	r->live = 1;
	count_pending_update();
	TR(0x10, r->prio, r->id, "reg_imm id=%d prio=%d al=%d", r->id, r->prio, r->al);
}

static void
op_reg_net(int fi, int dir, int al)
{
	struct reg * r;
	int rc, f0, attempt;

	if (budget-- <= 0)
		return;
	fi = ((fi % nfdu) + nfdu) % nfdu;
	dir = dir & 1;
	if (netreg[fi][dir] >= 0) {
		f0 = simalloc_failed;
		errno = 0;
		LIB_ENTER();
		rc = events_network_register(the_callback, NULL, fdnum[fi], dir);
		LIB_LEAVE();
		if (rc != -1 || (errno != EEXIST && !AF_SINCE(f0)))
			sim_viol("C04.retval", "eexist", "register on occupied fd=%d dir=%d: rc=%d errno=%d (want -1/EEXIST)", fdnum[fi], dir, rc, errno);
		R->cnt[N_EEXIST]++;
		TR(0x21, fi * 2 + dir, 0, "reg_net fd=%d dir=%d -> EEXIST", fdnum[fi], dir);
		return;
	}
	if ((r = newreg(K_NET, al)) == NULL)
		return;
	r->fi = fi;
	r->dir = dir;
	for (attempt = 0; attempt < 2; attempt++) {
		f0 = simalloc_failed;
		LIB_ENTER();
		rc = events_network_register(the_callback, r, fdnum[fi], dir);
		LIB_LEAVE();
		if (rc == 0)
			break;
		if (!AF_SINCE(f0))
			sim_viol("C04.retval", "net-register", "events_network_register fd=%d dir=%d failed: errno=%d", fdnum[fi], dir, errno);
		R->cnt[N_REG_FAIL]++;
		TR(0x2F, fi * 2 + dir, 0, "reg_net fd=%d dir=%d -> -1 (allocation failed)", fdnum[fi], dir);
		if (sim_af_persist)
			return;
		if (attempt == 1)
			sim_viol("C14.retry", "net", "events_network_register failed again with a healthy allocator");
	}
	r->live = 1;
	netreg[fi][dir] = r->id;
	if (netreg[fi][!dir] >= 0)
		R->cnt[N_RW_SAME_FD]++;
	if (in_cb && cur_cb != NULL && cur_cb->kind == K_NET && cur_cb->fi == fi)
		R->cnt[N_SELF_FD]++;
	count_pending_update();
	TR(0x20, fi * 2 + dir, r->id, "reg_net id=%d fd=%d dir=%s al=%d", r->id, fdnum[fi], dir ? "W" : "R", r->al);
}

static void
op_cancel_net(int fi, int dir)
{
	int rc;

	fi = ((fi % nfdu) + nfdu) % nfdu;
	dir = dir & 1;
	errno = 0;
	LIB_ENTER();
	rc = events_network_cancel(fdnum[fi], dir);
	LIB_LEAVE();
	if (netreg[fi][dir] < 0) {
		/* (an allocation failure inside init() is the only other documented way to fail) */
		if (rc != -1 || (errno != ENOENT && simalloc_failed == 0))
			sim_viol("C04.retval", "enoent", "cancel of empty fd=%d dir=%d: rc=%d errno=%d (want -1/ENOENT)", fdnum[fi], dir, rc, errno);
		R->cnt[N_ENOENT]++;
		TR(0x31, fi * 2 + dir, 0, "cancel_net fd=%d dir=%d -> ENOENT", fdnum[fi], dir);
		return;
	}
	if (rc != 0) {
		if (simalloc_failed)
			sim_viol("C14.cannot-fail", "cancel-net", "events_network_cancel of a live registration failed");
		sim_viol("C04.retval", "cancel-net", "events_network_cancel fd=%d dir=%d of a live registration failed errno=%d", fdnum[fi], dir, errno);
	}
	regs[netreg[fi][dir]].live = 0;
	netreg[fi][dir] = -1;
	if (in_cb)
		R->cnt[N_CANCEL_IN_CB]++;
	if (in_cb && cur_cb != NULL && cur_cb->kind == K_NET && cur_cb->fi == fi)
		R->cnt[N_SELF_FD]++;
	TR(0x30, fi * 2 + dir, 0, "cancel_net fd=%d dir=%s", fdnum[fi], dir ? "W" : "R");
}

static void
op_reg_tmr(int64_t us, int dbl, int al)
{
	struct reg * r;
	uint64_t t0, t1;
	int f0, attempt;

	if (budget-- <= 0)
		return;
	if ((r = newreg(K_TMR, al)) == NULL)
		return;
	if (us < 0)
		us = -us;
	if ((uint64_t)us > 9000000000000000ULL || now_ns / 1000 + (uint64_t)us > 9000000000000000ULL)
		us %= 1000000;		/* keep the 64-bit nanosecond clock of the simulation from wrapping */
	r->timeo_us = (uint64_t)us;
	r->dbl = dbl ? 1 : 0;
	for (attempt = 0; attempt < 2; attempt++) {
		int c0 = clock_failures;

		f0 = simalloc_failed;
		t0 = now_us();
		LIB_ENTER();
		if (r->dbl) {
			/* (multiples of 1/8 ms; not exactly representable in binary, hence the 1 us allowance in dl_lo) */
			double d = (double)(r->timeo_us / 125) * 0.000125;

			r->timeo_us = (r->timeo_us / 125) * 125;
			r->cookie = events_timer_register_double(the_callback, r, d);
		} else {
			struct timeval tv;

			tv.tv_sec = (time_t)(r->timeo_us / 1000000);
			tv.tv_usec = (suseconds_t)(r->timeo_us % 1000000);
			r->cookie = events_timer_register(the_callback, r, &tv);
		}
		LIB_LEAVE();
		t1 = now_us();
		if (r->cookie != NULL)
			break;
		if (CF_SINCE(c0) && !AF_SINCE(f0)) {
			/* the clock could not be read: the registration is refused and must leave nothing behind */
			R->cnt[N_REG_FAIL]++;
			TR(0x4E, r->timeo_us, 0, "reg_tmr us=%lu -> NULL (clock read failed)", (unsigned long)r->timeo_us);
			return;
		}
		if (!AF_SINCE(f0))
			sim_viol("C04.retval", "tmr-register-null", "events_timer_register failed without an allocation failure");
		R->cnt[N_REG_FAIL]++;
		TR(0x4F, r->timeo_us, 0, "reg_tmr us=%lu -> NULL (allocation failed)", (unsigned long)r->timeo_us);
		if (sim_af_persist)
			return;
		if (attempt == 1)
			sim_viol("C14.retry", "tmr", "events_timer_register failed again with a healthy allocator");
	}
	/* the documented double -> timeval conversion truncates: the library's deadline may be 1 us earlier */
	r->dl_lo = t0 + r->timeo_us - ((r->dbl && r->timeo_us > 0) ? 1 : 0);
	r->dl_hi = t1 + r->timeo_us;
	r->live = 1;
	count_pending_update();
	TR(0x40, r->timeo_us, r->id, "reg_tmr id=%d us=%lu dbl=%d deadline=[%lu,%lu] al=%d", r->id,
	    (unsigned long)r->timeo_us, r->dbl, (unsigned long)(r->dl_lo - T0_NS / 1000),
	    (unsigned long)(r->dl_hi - T0_NS / 1000), r->al);
}

static struct reg *
pick_live(int kind, int64_t a)
{
	int i, c = 0, k;

	for (i = 0; i < nreg; i++)
		if (regs[i].live && regs[i].kind == kind)
			c++;
	if (c == 0)
		return (NULL);
	if (a < 0)
		a = -a;
	k = (int)(a % c);
	for (i = 0; i < nreg; i++)
		if (regs[i].live && regs[i].kind == kind && k-- == 0)
			return (&regs[i]);
	return (NULL);
}

static void
op_cancel_imm(int64_t a)
{
	struct reg * r = pick_live(K_IMM, a);

	if (r == NULL)
		return;
	LIB_ENTER();
	events_immediate_cancel(r->cookie);
	LIB_LEAVE();
	r->live = 0;
	if (in_cb)
		R->cnt[N_CANCEL_IN_CB]++;
	TR(0x50, r->id, 0, "cancel_imm id=%d", r->id);
}

static void
op_cancel_tmr(int64_t a)
{
	struct reg * r = pick_live(K_TMR, a);

	if (r == NULL)
		return;
	LIB_ENTER();
	events_timer_cancel(r->cookie);
	LIB_LEAVE();
	r->live = 0;
	if (in_cb)
		R->cnt[N_CANCEL_IN_CB]++;
	TR(0x60, r->id, 0, "cancel_tmr id=%d", r->id);
}

static void
op_reset_tmr(int64_t a)
{
	struct reg * r = pick_live(K_TMR, a);
	uint64_t t0, t1;
	int rc, c0;

	if (r == NULL)
		return;
	if (budget-- <= 0)
		return;		/* resets count against the budget too: a reset cascade must end */
	t0 = now_us();
	c0 = clock_failures;
	LIB_ENTER();
	rc = events_timer_reset(r->cookie);
	LIB_LEAVE();
	t1 = now_us();
	if (rc != 0 && CF_SINCE(c0)) {
		/* the clock could not be read: the timer keeps the deadline it had */
		TR(0x71, r->id, 0, "reset_tmr id=%d -> -1 (clock read failed), deadline unchanged", r->id);
		return;
	}
	if (rc != 0)
		sim_viol("C04.retval", "reset", "events_timer_reset failed");
	r->dl_lo = t0 + r->timeo_us - ((r->dbl && r->timeo_us > 0) ? 1 : 0);
	r->dl_hi = t1 + r->timeo_us;
	R->cnt[N_RESET]++;
	TR(0x70, r->id, 0, "reset_tmr id=%d deadline=[%lu,%lu]", r->id,
	    (unsigned long)(r->dl_lo - T0_NS / 1000), (unsigned long)(r->dl_hi - T0_NS / 1000));
}

static void
op_env(int fi, int wv, int64_t delay_us)
{
	int what, val;

	fi = ((fi % nfdu) + nfdu) % nfdu;
	if (wv < 0)
		wv = -wv;
	what = (wv / 2) % 4;
	val = wv % 2;
	if (delay_us < 0)
		delay_us = 0;
	if (nev >= MAXENV)
		return;
	evq[nev].at = now_ns + (uint64_t)delay_us * 1000;
	evq[nev].fi = fi;
	evq[nev].what = what;
	evq[nev].val = val;
	evq[nev].used = 0;
	nev++;
	/* (takes effect at the next scheduling point: poll entry or harness step) */
}

static void do_op(int op, int64_t a, int64_t b, int64_t c, int * rc);

static void
run_al(int al, int * rc)
{
	const struct pline * l;
	char name[16];
	int i;

	if (al < 0 || PLAN == NULL)
		return;
	snprintf(name, sizeof(name), "%d", al);
	if ((l = plan_find(PLAN, "al", name)) == NULL)
		return;
	for (i = 0; i < l->ntok; i++) {
		const struct tok * t = &l->tok[i];

		R->cnt[N_ACT_IN_CB]++;
		do_op((int)(t->n > 0 ? t->v[0] : OP_NOP), t->n > 1 ? t->v[1] : 0, t->n > 2 ? t->v[2] : 0,
		    t->n > 3 ? t->v[3] : -1, rc);
	}
}

static void
do_op(int op, int64_t a, int64_t b, int64_t c, int * rc)
{

	if (op < 0)
		op = -op;
	op %= OP_NOPS;
	switch (op) {
	case OP_REG_IMM:
		op_reg_imm((int)a, (int)c);
		break;
	case OP_REG_NET:
		op_reg_net((int)a, (int)b, (int)c);
		break;
	case OP_CANCEL_NET:
		op_cancel_net((int)a, (int)b);
		break;
	case OP_REG_TMR:
		op_reg_tmr(a, (int)b, (int)c);
		break;
	case OP_CANCEL_IMM:
		op_cancel_imm(a);
		break;
	case OP_CANCEL_TMR:
		op_cancel_tmr(a);
		break;
	case OP_RESET_TMR:
		op_reset_tmr(a);
		break;
	case OP_ENV:
		op_env((int)a, (int)b, c);
		break;
	case OP_INTR:
		LIB_ENTER();
		events_interrupt();
		LIB_LEAVE();
		note_interrupt();
		if (in_cb)
			R->cnt[N_INTR_CB]++;
		else
			R->cnt[N_INTR_OUT]++;
		TR(0x80, in_cb, 0, "events_interrupt() %s", in_cb ? "inside callback" : "outside");
		break;
	case OP_RET:
		if (in_cb && rc != NULL) {
			*rc = 1 + (int)(((a % 100) + 100) % 100);
			R->cnt[N_RET_NONZERO]++;
		}
		break;
	case OP_WORK:
		if (a < 0)
			a = -a;
		now_ns += (uint64_t)a * 1000;
		R->cnt[N_WORK]++;
		TR(0x90, a, 0, "work %ld us", (long)a);
		break;
	case OP_SETDONE:
		if (in_cb) {
			spin_done = 1;
			done_set_in_call = 1;
		}
		break;
	case OP_REG_NET_SELF:
		if (in_cb && cur_cb != NULL && cur_cb->kind == K_NET)
			op_reg_net(cur_cb->fi, (int)b, (int)c);
		else
			op_reg_net((int)a, (int)b, (int)c);
		break;
	case OP_CANCEL_NET_SELF:
		if (in_cb && cur_cb != NULL && cur_cb->kind == K_NET)
			op_cancel_net(cur_cb->fi, (int)b);
		else
			op_cancel_net((int)a, (int)b);
		break;
	case OP_REREG_NET:
		/* cancel and at once re-register the same descriptor and direction (a fresh registration: nothing reported yet) */
		{
			int fi = (int)(((a % nfdu) + nfdu) % nfdu), dir = (int)(b & 1);

			if (netreg[fi][dir] >= 0)
				op_cancel_net(fi, dir);
			op_reg_net(fi, dir, (int)c);
		}
		break;
	case OP_CANCEL_NET_SLOT:
		/* cancel whatever sat in the last (a even) or first (a odd) slot of the latest poll array */
		if (lastpoll_n > 0) {
			int fd = (a & 1) ? lastpoll_fd[0] : lastpoll_fd[lastpoll_n - 1];
			int fi = fidx(fd);

			if (fi >= 0 && netreg[fi][(int)(b & 1)] >= 0)
				op_cancel_net(fi, (int)(b & 1));
			else if (fi >= 0 && netreg[fi][!(b & 1)] >= 0)
				op_cancel_net(fi, !(b & 1));
		}
		break;
	default:
		break;
	}
}

/* ---------- the user callback + dispatch oracles ---------- */
static int
the_callback(void * cookie)
{
	struct reg * r = cookie;
	int rc = 0, i;
	CB_ENTER();

	R->cnt[N_CB]++;
	if (r < regs || r >= regs + nreg)
		sim_viol("C04.live", "foreign", "callback with a cookie that was never registered");
	NOTE("CALLBACK id=%d kind=%s now=+%lu us", r->id, r->kind == K_IMM ? "imm" : r->kind == K_NET ? "net" : "tmr",
	    (unsigned long)(now_us() - T0_NS / 1000));
	if (!in_run)
		sim_viol("C04.live", "outside-run", "callback id=%d outside events_run", r->id);
	if (!r->live)
		sim_viol("C04.live", "not-live", "callback for registration id=%d kind=%d which is not live (cancelled or already fired)", r->id, r->kind);
	if (stop_seen == 2)
		stop_seen = 3;
	else if (stop_seen)
		sim_viol("C05.after-stop", "after-stop", "callback id=%d ran after dispatching had to stop (nonzero=%d interrupt=%d)", r->id, have_nonzero, intr_in_call);
	sim_trh(0xC0, (uint64_t)r->kind, (uint64_t)(r->kind == K_NET ? r->fi * 2 + r->dir : r->kind == K_IMM ? r->prio : 0));
	if (r->kind == K_IMM) {
		R->cnt[N_CB_IMM]++;
		for (i = 0; i < nreg; i++)
			if (regs[i].live && regs[i].kind == K_IMM && &regs[i] != r &&
			    (regs[i].prio < r->prio || (regs[i].prio == r->prio && regs[i].seq < r->seq)))
				sim_viol("C05.imm-order", "imm-order", "immediate id=%d (prio %d, seq %lu) ran before id=%d (prio %d, seq %lu)",
				    r->id, r->prio, (unsigned long)r->seq, regs[i].id, regs[i].prio, (unsigned long)regs[i].seq);
	} else if (pending_imm())
		sim_viol("C05.imm-first", "imm-first", "%s callback id=%d ran while an immediate event was pending", r->kind == K_NET ? "socket" : "timer", r->id);
	if (r->kind == K_NET) {
		R->cnt[N_CB_NET]++;
		if (!(r->eligible || hup_latest[r->fi]))
			sim_viol("C04.eligible", "eligible", "socket callback fd=%d dir=%d ran although no poll since its registration reported it and the latest poll reported no hang-up/error", fdnum[r->fi], r->dir);
		netreg[r->fi][r->dir] = -1;
	}
	if (r->kind == K_TMR) {
		uint64_t n = now_us();

		R->cnt[N_CB_TMR]++;
		if (n < r->dl_lo)
			sim_viol("C04.early", "early", "timer id=%d ran at +%lu us, before its deadline +%lu us", r->id,
			    (unsigned long)(n - T0_NS / 1000), (unsigned long)(r->dl_lo - T0_NS / 1000));
		for (i = 0; i < nreg; i++)
			if (regs[i].live) {
				/*
				 * The loop chose a timer without having looked at the descriptors since the previous
				 * callback, while a registered descriptor is ready in the (simulated) kernel: the ready
				 * socket had to win.
				 */
				if (regs[i].kind == K_NET && cb_since_poll > 0 &&
				    ((regs[i].dir ? w_wr[regs[i].fi] : w_rd[regs[i].fi]) || w_hup[regs[i].fi]))
					sim_viol("C05.net-first", "net-first-nolook", "timer id=%d ran although fd=%d dir=%d was registered and ready, and the loop had not polled since the previous callback",
					    r->id, fdnum[regs[i].fi], regs[i].dir);
				if (regs[i].kind == K_NET && regs[i].reported_latest)
					sim_viol("C05.net-first", "net-first", "timer id=%d ran while fd=%d dir=%d, reported by the latest poll, was still registered",
					    r->id, fdnum[regs[i].fi], regs[i].dir);
				if (regs[i].kind == K_TMR && &regs[i] != r) {
					if (regs[i].dl_hi < r->dl_lo)
						sim_viol("C05.tmr-order", "tmr-order", "timer id=%d (deadline >= +%lu) ran before timer id=%d (deadline <= +%lu)",
						    r->id, (unsigned long)(r->dl_lo - T0_NS / 1000), regs[i].id, (unsigned long)(regs[i].dl_hi - T0_NS / 1000));
					if (regs[i].dl_lo <= r->dl_hi && r->dl_lo <= regs[i].dl_hi)
						R->cnt[N_TIE]++;
				}
			}
	}
	r->live = 0;
	cb_in_call++;
	cb_since_poll++;
	in_first_select = 0;
	wake_pending = 0;
	if (draining)
		R->cnt[N_DRAIN_FIRED]++;
	in_cb = 1;
	cur_cb = r;
	run_al(r->al, &rc);
	in_cb = 0;
	cur_cb = NULL;
	if (rc != 0 && !have_nonzero) {
		have_nonzero = 1;
		nonzero_rc = rc;
	}
	if (rc != 0 || intr_in_call)
		stop_seen = 1;
	X_ns = now_ns;
	NOTE("callback id=%d returns %d", r->id, rc);
	CB_LEAVE();
	return (rc);
}

/* ---------- poll ---------- */
static int poll_impl(struct pollfd *, nfds_t, int);

int
__wrap_poll(struct pollfd * fds, nfds_t n, int T)
{
	int rc, e;

	inside_poll = 1;
	rc = poll_impl(fds, n, T);
	e = errno;
	inside_poll = 0;
	errno = e;
	return (rc);
}

static int
poll_impl(struct pollfd * fds, nfds_t n, int T)
{
	uint64_t mh, start;
	int blocked = 0, fi, d, i;
	nfds_t j;
	int fk = 0, farg = 0;
	int depth_saved = simalloc_depth;

	simalloc_depth = 0;
	R->cnt[N_POLL]++;
	/*
	 * Which select is this?  A pass of the loop is: first select, then (after each callback, or when nothing was
	 * cached) a zero-timeout re-poll.  A plain EINTR makes the library repeat the same select.
	 */
	if (last_poll_plain_eintr)
		in_first_select = prev_first_select;
	else if (polls_in_call == 0)
		in_first_select = 1;
	else
		in_first_select = (cb_since_poll == 0 && !prev_first_select);
	prev_first_select = in_first_select;
	last_poll_plain_eintr = 0;
	polls_in_call++;
	cb_since_poll = 0;
	if (R->cnt[N_POLL] > 1500000) {
		char o[32];

		snprintf(o, sizeof(o), "%s.spin", sim_prop);
		sim_viol(o, "poll-cap", "the event loop called poll more than 1500000 times in one run (bounded workload: busy loop)");
	}
	if (n > 16)
		R->cnt[N_POLLGROW]++;
	TR(0xF0, T < 0 ? 99999 : T, n, "poll(n=%d, timeout=%d) at +%lu us", (int)n, T, (unsigned long)(now_us() - T0_NS / 1000));
	if (!in_run)
		sim_viol("C05.status", "poll-outside", "poll called outside events_run/events_spin");
	if (spin_active && done_set_in_call && T != 0)
		sim_viol("C05.spin-done", "spin-done", "events_spin issued a blocking poll (timeout %d) after *done was set", T);
	/* blocking bound */
	if (have_timer(&mh)) {
		uint64_t Xus = X_ns / 1000, bound;

		if (T < 0)
			sim_viol("C05.timeout", "infinite", "poll with infinite timeout while a timer is pending");
		bound = (mh > Xus) ? (mh - Xus + 999) / 1000 : 0;
		if ((uint64_t)T > bound)
			sim_viol("C05.timeout", "too-long", "poll timeout %d ms exceeds the %lu ms until the earliest deadline", T, (unsigned long)bound);
	}
	/* every live registration must be in the array */
	for (fi = 0; fi < nfdu; fi++)
		for (d = 0; d < 2; d++)
			if (netreg[fi][d] >= 0) {
				int ok = 0;

				for (j = 0; j < n; j++)
					if (fds[j].fd == fdnum[fi] && (fds[j].events & (d ? POLLOUT : POLLIN)))
						ok = 1;
				if (!ok)
					sim_viol("C05.pollset", "pollset", "fd=%d dir=%d is registered but missing from the array given to poll", fdnum[fi], d);
			}
	lastpoll_n = 0;
	for (j = 0; j < n && j < 64; j++)
		lastpoll_fd[lastpoll_n++] = fds[j].fd;

	/* fault directive for this call */
	if (!draining && cur_tape != NULL && tape_pos < cur_tape->ntok) {
		fk = (int)cur_tape->tok[tape_pos].v[0];
		farg = cur_tape->tok[tape_pos].n > 1 ? (int)cur_tape->tok[tape_pos].v[1] : 0;
		tape_pos++;
	}
	if (fk == 2) {
		R->cnt[N_SIGNAL]++;
		TR(0xF2, 0, 0, "  -> signal: events_interrupt(), poll returns EINTR");
		events_interrupt();
		note_interrupt();
		now_ns += 1000;
		errno = EINTR;
		simalloc_depth = depth_saved;
		return (-1);
	}
	if (fk == 1) {
		R->cnt[N_EINTR]++;
		last_poll_plain_eintr = 1;
		TR(0xF1, 0, 0, "  -> EINTR");
		now_ns += 1000;
		errno = EINTR;
		simalloc_depth = depth_saved;
		return (-1);
	}
	if (fk == 5) {
		R->cnt[N_POLLERR]++;
		hard_err_in_call = 1;
		TR(0xF5, 0, 0, "  -> hard error ENOMEM");
		now_ns += 1000;
		errno = ENOMEM;
		simalloc_depth = depth_saved;
		return (-1);
	}
	start = now_ns;
	for (;;) {
		int cnt = 0;

		apply_env();
		for (j = 0; j < n; j++) {
			short rv = 0;

			fi = fidx(fds[j].fd);
			if (fi >= 0) {
				if ((fds[j].events & POLLIN) && w_rd[fi])
					rv |= POLLIN;
				if ((fds[j].events & POLLOUT) && w_wr[fi])
					rv |= POLLOUT;
				if (w_hup[fi]) {
					rv |= (w_hup[fi] == 1 ? POLLHUP : POLLERR);
					R->cnt[N_HUP]++;
				}
				if (fk == 3 && !blocked && n > 0 && (nfds_t)(((farg % (int)n) + (int)n) % (int)n) == j &&
				    (fds[j].events & (POLLIN | POLLOUT)) != 0 && (rv & fds[j].events) != fds[j].events) {
					rv |= fds[j].events & (POLLIN | POLLOUT);
					R->cnt[N_SPUR]++;
				}
			}
			fds[j].revents = rv;
			if (rv)
				cnt++;
		}
		if (cnt) {
			int live_reported = 0;

			for (i = 0; i < nreg; i++)
				regs[i].reported_latest = 0;
			memset(hup_latest, 0, sizeof(hup_latest));
			for (j = 0; j < n; j++) {
				if ((fi = fidx(fds[j].fd)) < 0)
					continue;
				if (fds[j].revents & (POLLHUP | POLLERR)) {
					hup_latest[fi] = 1;
					for (d = 0; d < 2; d++)
						if (netreg[fi][d] >= 0) {
							regs[netreg[fi][d]].reported_latest = 1;
							live_reported = 1;
						}
				}
				if ((fds[j].revents & POLLIN) && netreg[fi][0] >= 0) {
					regs[netreg[fi][0]].eligible = 1;
					regs[netreg[fi][0]].reported_latest = 1;
					live_reported = 1;
				}
				if ((fds[j].revents & POLLOUT) && netreg[fi][1] >= 0) {
					regs[netreg[fi][1]].eligible = 1;
					regs[netreg[fi][1]].reported_latest = 1;
					live_reported = 1;
				}
				if (sim_verbose && fds[j].revents)
					fprintf(stderr, "      fd=%d revents=0x%x\n", fds[j].fd, fds[j].revents);
			}
			if (live_reported)
				wake_pending = 1;
			now_ns += 1000;
			sim_trh(0xF8, (uint64_t)cnt, (uint64_t)blocked);
			NOTE("  -> %d ready%s at +%lu us", cnt, blocked ? " after blocking" : "", (unsigned long)(now_us() - T0_NS / 1000));
			simalloc_depth = depth_saved;
			return (cnt);
		}
		if (T == 0 || (T > 0 && now_ns >= start + (uint64_t)T * 1000000ULL)) {
			for (i = 0; i < nreg; i++)
				regs[i].reported_latest = 0;
			memset(hup_latest, 0, sizeof(hup_latest));
			if (blocked) {
				uint64_t mh2;

				if (have_timer(&mh2) && mh2 <= now_us())
					wake_pending = 1;
			}
			now_ns += 1000;
			sim_trh(0xF9, 0, (uint64_t)blocked);
			NOTE("  -> 0 (timeout)%s at +%lu us", blocked ? " after blocking" : "", (unsigned long)(now_us() - T0_NS / 1000));
			simalloc_depth = depth_saved;
			return (0);
		}
		/* must block */
		if (pending_imm())
			sim_viol("C05.no-wait", "no-wait", "poll(timeout=%d) blocks while an immediate event is pending", T);
		{
			uint64_t ne, lim, to;
			int he = next_env(&ne);

			lim = (T > 0) ? start + (uint64_t)T * 1000000ULL : ~0ULL;
			if (!he && T < 0) {
				/* Nothing will ever happen: a deadlock of the harness's making; break it with a signal. */
				TR(0xF3, 0, 0, "  -> nothing can happen: signal + EINTR");
				events_interrupt();
				note_interrupt();
				errno = EINTR;
				now_ns += 1000;
				simalloc_depth = depth_saved;
				return (-1);
			}
			to = (he && ne < lim) ? ne : lim;
			if (to > now_ns)
				now_ns = to;
			blocked = 1;
			R->cnt[N_BLOCK]++;
		}
	}
}

/* ---------- driving events_run / events_spin ---------- */
static void
run_once(int spin, const struct pline * tape, int sigclk)
{
	int R0, R0imm, intr_before, rc, i, f0, c0;

	apply_env();
	R0 = pending_imm();
	R0imm = R0;
	for (i = 0; i < nreg; i++)
		if (regs[i].live && regs[i].kind == K_TMR && regs[i].dl_hi <= now_us())
			R0 = 1;
	in_run = 1;
	cb_in_call = 0;
	intr_in_call = 0;
	stop_seen = 0;
	wake_pending = 0;
	have_nonzero = 0;
	nonzero_rc = 0;
	hard_err_in_call = 0;
	done_set_in_call = 0;
	X_ns = now_ns;
	intr_before = intr_pending_outside;
	polls_in_call = 0;
	cb_since_poll = 0;
	in_first_select = 0;
	prev_first_select = 0;
	last_poll_plain_eintr = 0;
	if (intr_before)
		stop_seen = R0imm ? 2 : 1;	/* with an immediate pending the first one still runs; otherwise nothing may */
	cur_tape = tape;
	tape_pos = 0;
	clock_reads_in_step = 0;
	sig_at_clock = sigclk;
	f0 = simalloc_failed;
	c0 = clock_failures;
	spin_active = spin;
	spin_done = 0;
	if (spin) {
		R->cnt[N_SPIN]++;
		NOTE("events_spin(&done) ...");
		LIB_ENTER();
		rc = events_spin(&spin_done);
		LIB_LEAVE();
	} else {
		R->cnt[N_RUNS]++;
		NOTE("events_run() ...");
		LIB_ENTER();
		rc = events_run();
		LIB_LEAVE();
	}
	in_run = 0;
	spin_active = 0;
	sig_at_clock = 0;
	cur_tape = NULL;
	allocfail_in_call = AF_SINCE(f0);
	if (CF_SINCE(c0))
		hard_err_in_call = 1;	/* the loop cannot go on without the time: -1 is the documented answer */
	TR(0xE0, rc, cb_in_call, "-> returned %d after %d callbacks", rc, cb_in_call);
	if (have_nonzero) {
		if (rc != nonzero_rc)
			sim_viol("C05.status", "status", "returned %d, but the first non-zero callback result was %d", rc, nonzero_rc);
	} else if (rc == -1 && (hard_err_in_call || allocfail_in_call)) {
		R->cnt[N_RUN_FAIL]++;
	} else if (rc != 0) {
		sim_viol("C05.status", "status", "returned %d although no callback returned non-zero and nothing failed", rc);
	}
	if (!intr_before && !intr_in_call && !have_nonzero && rc == 0 && !hard_err_in_call && !allocfail_in_call) {
		if (R0 && cb_in_call == 0 && !(spin && 0))
			sim_viol("C05.run-one", "run-one", "something was runnable at entry but the call ran no callback");
		if (wake_pending)
			sim_viol("C05.wake-run", "wake-run", "poll woke for a live registration or an expired timer but no callback ran before the call returned");
	}
	intr_pending_outside = 0;
	R->steps++;
}

static void
drain_and_finish(void)
{
	int p, lim, k, fi, i;

	draining = 1;
	budget = 0;
	for (i = 0; i < nreg; i++)
		regs[i].al = -1;
	for (i = 0; i < nev; i++)
		evq[i].used = 1;
	if (!(sim_af_persist && simalloc_failed)) {
		for (fi = 0; fi < nfdu; fi++)
			w_rd[fi] = w_wr[fi] = 1;
		p = n_pending();
		lim = 3 * p + 10;
		{
			/* a poll can sleep at most INT_MAX ms: far-away deadlines need that many more calls */
			uint64_t mx = 0;

			for (i = 0; i < nreg; i++)
				if (regs[i].live && regs[i].kind == K_TMR && regs[i].dl_hi > mx)
					mx = regs[i].dl_hi;
			if (mx > now_us())
				lim += (int)((mx - now_us()) / 2147483647000ULL) + 2;
		}
		for (k = 0; k < lim && n_pending() > 0; k++) {
			run_once(0, NULL, 0);
			if (sim_af_persist && simalloc_failed)
				break;
		}
		if (n_pending() > 0 && !(sim_af_persist && simalloc_failed)) {
			for (i = 0; i < nreg; i++)
				if (regs[i].live)
					sim_viol("C05.lost", "lost", "registration id=%d kind=%d never fired although its condition held for %d loop calls (%d left)",
					    regs[i].id, regs[i].kind, lim, n_pending());
		}
	}
	if (sim_af_persist && simalloc_failed) {
		/*
		 * The allocator refuses everything from the failure point on, so the
		 * loop cannot be drained (events_run needs memory while a timer is
		 * pending).  Release everything with the cannot-fail cancel calls.
		 */
		for (i = 0; i < nreg; i++) {
			struct reg * r = &regs[i];

			if (!r->live)
				continue;
			LIB_ENTER();
			if (r->kind == K_IMM)
				events_immediate_cancel(r->cookie);
			else if (r->kind == K_TMR)
				events_timer_cancel(r->cookie);
			else if (events_network_cancel(fdnum[r->fi], r->dir) != 0)
				sim_viol("C14.cannot-fail", "cancel-net", "events_network_cancel failed while the allocator refuses everything");
			LIB_LEAVE();
			if (r->kind == K_NET)
				netreg[r->fi][r->dir] = -1;
			r->live = 0;
		}
	}
	/* simulated process exit */
	simalloc_run_atexit();
	{
		size_t by, nl = simalloc_lib_live(&by);

		if (nl != 0) {
			if (sim_verbose)
				simalloc_dump_live();
			sim_viol("C14.leak", "leak", "%zu library blocks (%zu bytes) still allocated after everything fired or was cancelled and the exit handlers ran", nl, by);
		}
	}
}

/* ---------- plan generation ---------- */
static void
gen_action(struct prng * g, int64_t * v, int nal, int incb, int nfd)
{
	static const int w_cb[] = { OP_REG_IMM, OP_REG_IMM, OP_REG_NET, OP_REG_NET, OP_CANCEL_NET, OP_REG_TMR, OP_REG_TMR,
	    OP_CANCEL_IMM, OP_CANCEL_TMR, OP_RESET_TMR, OP_ENV, OP_ENV, OP_INTR, OP_RET, OP_WORK, OP_SETDONE,
	    OP_REG_NET_SELF, OP_REG_NET_SELF, OP_CANCEL_NET_SELF, OP_CANCEL_NET_SLOT, OP_CANCEL_NET_SLOT, OP_REREG_NET, OP_REREG_NET,
	    OP_REREG_NET };
	static const int w_out[] = { OP_REG_IMM, OP_REG_IMM, OP_REG_NET, OP_REG_NET, OP_REG_NET, OP_CANCEL_NET, OP_REG_TMR,
	    OP_REG_TMR, OP_CANCEL_IMM, OP_CANCEL_TMR, OP_RESET_TMR, OP_ENV, OP_ENV, OP_ENV, OP_WORK, OP_CANCEL_NET_SLOT };
	int op;

	if (incb)
		op = w_cb[prng_n(g, sizeof(w_cb) / sizeof(w_cb[0]))];
	else
		op = w_out[prng_n(g, sizeof(w_out) / sizeof(w_out[0]))];
	if (op == OP_INTR && !prng_chance(g, 35))
		op = OP_REG_IMM;
	if (op == OP_RET && !prng_chance(g, 35))
		op = OP_REG_NET;
	v[0] = op;
	v[1] = v[2] = 0;
	v[3] = nal > 0 && prng_chance(g, 70) ? (int64_t)prng_n(g, (uint32_t)nal) : -1;
	switch (op) {
	case OP_REG_IMM:
		v[1] = prng_chance(g, 40) ? (int64_t)prng_n(g, 3) : (int64_t)prng_n(g, 32);
		break;
	case OP_REG_NET: case OP_CANCEL_NET: case OP_REG_NET_SELF: case OP_CANCEL_NET_SELF: case OP_REREG_NET:
		v[1] = prng_n(g, (uint32_t)nfd);
		v[2] = prng_n(g, 2);
		break;
	case OP_CANCEL_NET_SLOT:
		v[1] = prng_n(g, 2);
		v[2] = prng_n(g, 2);
		break;
	case OP_REG_TMR:
		switch (prng_n(g, 6)) {
		case 0: v[1] = 0; break;
		case 1: v[1] = prng_n(g, 3000); break;
		case 2: v[1] = (int64_t)prng_n(g, 1000) * 1000; break;
		case 3: v[1] = 999998 + prng_n(g, 4); break;
		case 4: v[1] = (int64_t)prng_n(g, 40) * 250; break;	/* many ties */
		default: v[1] = (int64_t)prng_n(g, 1000) * 37; break;
		}
		if (prng_chance(g, 4)) {
			/* far-away deadlines: around the INT_MAX-millisecond poll clamp, around 2^31 and 2^32 seconds, a century */
			static const int64_t far_s[] = { 2147482, 2147483, 2147483, 2147483, 2147484, 2147485, 2147483647LL, 2147483648LL, 2147483649LL,
			    4294967295LL, 4294967296LL, 3155760000LL, 86400, 86400 * 25 };

			v[1] = far_s[prng_n(g, sizeof(far_s) / sizeof(far_s[0]))] * 1000000 + (int64_t)(prng_chance(g, 50) ? 640000 + prng_n(g, 360000) : prng_n(g, 1000000));
		}
		v[2] = prng_chance(g, 20);
		break;
	case OP_CANCEL_IMM: case OP_CANCEL_TMR: case OP_RESET_TMR:
		v[1] = prng_n(g, 1000);
		break;
	case OP_ENV:
		v[1] = prng_n(g, (uint32_t)nfd);
		/* what*2+val: readable/writable mostly on, hup/err sometimes */
		{
			int what = prng_chance(g, 15) ? 2 + (int)prng_n(g, 2) : (int)prng_n(g, 2);
			int val = prng_chance(g, 75);

			v[2] = what * 2 + val;
		}
		v[3] = prng_chance(g, 50) ? 0 : (int64_t)prng_n(g, 5000);
		break;
	case OP_RET:
		v[1] = prng_n(g, 100);
		break;
	case OP_WORK:
		v[1] = prng_chance(g, 5) ? (int64_t)prng_n(g, 2000000) : (int64_t)prng_n(g, 2000);
		break;
	default:
		break;
	}
}

void
engine_gen(struct plan * P, uint64_t seed, struct prng * g)
{
	int nfd, nal, nsteps, i, s, sparse, faulty, p_eintr, p_spur, p_sig, p_hard, p_sigclk;
	struct pline * l;
	int fdv[MAXFD];

	(void)seed;
	switch (prng_n(g, 10)) {
	case 0: case 1: case 2: case 3: nfd = 1 + (int)prng_n(g, 4); break;
	case 4: case 5: case 6: case 7: nfd = 5 + (int)prng_n(g, 8); break;
	default: nfd = 17 + (int)prng_n(g, MAXFD - 17 + 1); break;
	}
	sparse = prng_chance(g, 30);
	for (i = 0; i < nfd; i++) {
		fdv[i] = sparse ? 3 + i * 7 + (int)prng_n(g, 5) : 3 + i;
		if (i > 0 && fdv[i] <= fdv[i - 1])
			fdv[i] = fdv[i - 1] + 1;
	}
	plan_add(P, "knob", "nfd", 1, (int64_t)nfd);
	l = plan_add(P, "data", "fds", 0);
	for (i = 0; i < nfd; i++)
		pline_tok(l, 1, (int64_t)fdv[i]);
	plan_add(P, "knob", "tick_ns", 1, prng_chance(g, 30) ? (int64_t)prng_n(g, 3000) : (int64_t)0);
	plan_add(P, "knob", "no_monotonic", 1, (int64_t)prng_chance(g, 8));
	if (prng_chance(g, 12)) {
		/* a few clock reads of the run fail hard (counted from the start of the run) */
		struct pline * cl = plan_add(P, "clk", "0", 0);
		int nf = 1 + (int)prng_n(g, 3), q;

		for (q = 0; q < nf; q++)
			pline_tok(cl, 1, (int64_t)prng_n(g, prng_chance(g, 50) ? 40 : 400));
	}
	plan_add(P, "knob", "budget", 1, (int64_t)(80 + nfd + prng_n(g, 150)));
	plan_add(P, "knob", "realloc_moves", 1, (int64_t)prng_n(g, 2));
	plan_add(P, "knob", "fill", 1, (int64_t)(prng_chance(g, 50) ? 256 : (prng_chance(g, 50) ? 0xff : 0)));
	faulty = prng_chance(g, 75);
	p_eintr = faulty && prng_chance(g, 50) ? (int)prng_n(g, 12) : 0;
	p_spur = faulty && prng_chance(g, 50) ? (int)prng_n(g, 20) : 0;
	p_sig = faulty && prng_chance(g, 40) ? (int)prng_n(g, 8) : 0;
	p_hard = faulty && prng_chance(g, 10) ? 2 : 0;
	p_sigclk = faulty && prng_chance(g, 20) ? 10 : 0;

	nal = (int)prng_n(g, 14);
	for (i = 0; i < nal; i++) {
		char name[16];
		int na = (int)prng_n(g, 4), k;

		snprintf(name, sizeof(name), "%d", i);
		l = plan_add(P, "al", name, 0);
		for (k = 0; k < na; k++) {
			int64_t v[4];

			gen_action(g, v, nal, 1, nfd);
			pline_tokv(l, 4, v);
		}
	}
	if (nfd >= 17 && prng_chance(g, 75)) {
		/* more than 16 descriptors registered at once: the pollfd array and the socket list grow */
		for (i = 0; i < nfd; i++)
			if (prng_chance(g, 90))
				plan_add(P, "step", "reg_net", 3, (int64_t)i, (int64_t)prng_n(g, 2),
				    (nal > 0 && prng_chance(g, 60)) ? (int64_t)prng_n(g, (uint32_t)nal) : (int64_t)-1);
	}
	if (prng_chance(g, 25)) {
		/* many timers pending at once (a heap several levels deep), then cancels and resets by handle */
		int nt = 12 + (int)prng_n(g, 40), k;

		for (k = 0; k < nt; k++)
			plan_add(P, "step", "reg_tmr", 3, (int64_t)(prng_chance(g, 30) ? prng_n(g, 50) * 100 : prng_n(g, 200000)), (int64_t)prng_chance(g, 15),
			    (nal > 0 && prng_chance(g, 30)) ? (int64_t)prng_n(g, (uint32_t)nal) : (int64_t)-1);
		for (k = 0; k < 2 + (int)prng_n(g, 10); k++)
			plan_add(P, "step", prng_chance(g, 70) ? "cancel_tmr" : "reset_tmr", 3, (int64_t)prng_n(g, 1000), (int64_t)0, (int64_t)-1);
	}
	nsteps = 5 + (int)prng_n(g, 60);
	{
		/* rarely: thousands of immediate events pending at once (beyond what the record pool caches) */
		if (prng_n(g, strcmp(sim_prop, "C14") != 0 ? 150 : 100) == 0) {
			plan_add(P, "step", "flood_imm", 2, (int64_t)(4090 + prng_n(g, 1200)), (int64_t)prng_n(g, 32));
			if (prng_chance(g, 70))
				plan_add(P, "step", "run", 2, (int64_t)0, (int64_t)0);
		}
	}
	for (s = 0; s < nsteps; s++) {
		int64_t v[4];

		if (prng_chance(g, 30)) {
			int np = (int)prng_n(g, 8), k;

			l = plan_add(P, "step", "run", 2, (int64_t)prng_chance(g, 15),
			    (int64_t)(prng_chance(g, (unsigned)p_sigclk) ? 1 + prng_n(g, 6) : 0));
			for (k = 0; k < np; k++) {
				unsigned x = prng_n(g, 100);

				if (x < (unsigned)p_eintr)
					pline_tok(l, 1, (int64_t)1);
				else if (x < (unsigned)(p_eintr + p_sig))
					pline_tok(l, 1, (int64_t)2);
				else if (x < (unsigned)(p_eintr + p_sig + p_spur))
					pline_tok(l, 2, (int64_t)3, (int64_t)prng_n(g, 64));
				else if (x < (unsigned)(p_eintr + p_sig + p_spur + p_hard))
					pline_tok(l, 1, (int64_t)5);
				else
					pline_tok(l, 1, (int64_t)0);
			}
			continue;
		}
		if (prng_chance(g, 3)) {
			plan_add(P, "step", "intr", 0);
			continue;
		}
		gen_action(g, v, nal, 0, nfd);
		plan_add(P, "step", opname[v[0]], 3, v[1], v[2], v[3]);
	}
}

/* ---------- plan execution ---------- */
void
engine_zygote_init(void)
{
}

static int
opcode(const char * name)
{
	int i;

	for (i = 0; i < OP_NOPS; i++)
		if (!strcmp(name, opname[i]))
			return (i);
	return (-1);
}

void
engine_run(const struct plan * P)
{
	const struct pline * l;
	int i, step = 0, fi;

	PLAN = P;
	nfdu = (int)plan_knob(P, "nfd", 1);
	if (nfdu < 1)
		nfdu = 1;
	if (nfdu > MAXFD)
		nfdu = MAXFD;
	l = plan_find(P, "data", "fds");
	for (i = 0; i < nfdu; i++) {
		fdnum[i] = (l != NULL && i < l->ntok) ? (int)l->tok[i].v[0] : 3 + i;
		if (fdnum[i] < 3)
			fdnum[i] = 3;
		if (fdnum[i] > 400)
			fdnum[i] = 400;
		if (i > 0 && fdnum[i] <= fdnum[i - 1])
			fdnum[i] = fdnum[i - 1] + 1;
	}
	for (fi = 0; fi < MAXFD; fi++)
		netreg[fi][0] = netreg[fi][1] = -1;
	tick_ns = (uint64_t)plan_knob(P, "tick_ns", 0);
	clk_fail = plan_find(P, "clk", "0");
	no_monotonic = (int)plan_knob(P, "no_monotonic", 0) == 1;
	if (no_monotonic)
		R->cnt[N_NOMONO]++;
	if (tick_ns > 1000000)
		tick_ns = 1000000;
	budget = (int)plan_knob(P, "budget", 100);
	if (budget > 400)
		budget = 400;
	simalloc_realloc_moves = (int)plan_knob(P, "realloc_moves", 0);
	simalloc_fill = (int)plan_knob(P, "fill", -1);
	simalloc_fill_seed = 12345;

	for (i = 0; i < P->n; i++) {
		int op, rc = 0;

		l = &P->l[i];
		if (strcmp(l->kind, "step"))
			continue;
		simalloc_step(step++);
		apply_env();
		if (!strcmp(l->name, "run")) {
			run_once(l->nargs > 0 && l->a[0] != 0, l, l->nargs > 1 ? (int)l->a[1] : 0);
			continue;
		}
		if (!strcmp(l->name, "intr")) {
			do_op(OP_INTR, 0, 0, 0, &rc);
			continue;
		}
		if (!strcmp(l->name, "flood_imm")) {
			/* more immediate events pending at once than the library's record pool caches (4096) */
			int n = l->nargs > 0 ? (int)l->a[0] : 0, k, b0 = budget;
			int64_t p0 = l->nargs > 1 ? l->a[1] : 0;

			if (n < 0)
				n = 0;
			if (n > 6000)
				n = 6000;
			for (k = 0; k < n; k++) {
				budget = 1;
				op_reg_imm((int)((p0 + (int64_t)k * 7) % 32), -1);
			}
			budget = b0;
			if (n > 4096)
				R->cnt[N_FLOOD]++;
			R->steps++;
			continue;
		}
		if ((op = opcode(l->name)) < 0)
			continue;
		if (op == OP_RET || op == OP_SETDONE || op == OP_INTR)
			continue;
		do_op(op, l->nargs > 0 ? l->a[0] : 0, l->nargs > 1 ? l->a[1] : 0, l->nargs > 2 ? l->a[2] : -1, &rc);
		R->steps++;
	}
	simalloc_step(step++);
	drain_and_finish();
	R->sim_ns = now_ns - T0_NS;
	R->nontrivial = (R->cnt[N_CB] >= 3 && R->cnt[N_POLL] >= 2 &&
	    (R->cnt[N_ACT_IN_CB] >= 1 || R->cnt[N_EINTR] + R->cnt[N_SIGNAL] + R->cnt[N_SPUR] + R->cnt[N_HUP] >= 1));
	R->cnt[N_ALLOCFAIL] = (uint64_t)simalloc_failed;
}
