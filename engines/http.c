/*
 * http.c -- engine for C08 (safe on any server bytes) and C09 (decodes every
 * well-formed response exactly), plus the HTTP part of C14.
 *
 * Real code: http.c netbuf_*.c network_*.c sock.c + the whole event loop.
 * Stubs: kernel sockets (sim/vkernel.c), the HTTP server (a scripted peer
 * whose byte stream is built here from the plan), clock, allocator policy.
 */
#define _GNU_SOURCE
#include <sys/socket.h>
#include <sys/time.h>

#include <errno.h>
#include <stdint.h>
#include <stdio.h>
#include <stdlib.h>
#include <string.h>
#include <unistd.h>

#include "events.h"
#include "http.h"
#include "sock.h"
#include "warnp.h"

#include "sim.h"
#include "simalloc.h"
#include "vkernel.h"
#include "tls_stub.h"

const char * engine_name = "http";
const char * const engine_props[] = { "C08", "C09", "C14", NULL };

enum {
	N_REQ, N_CB, N_CB_NULL, N_CB_RESP, N_CANCEL, N_WELLFORMED, N_HOSTILE, N_CL, N_CHUNKED, N_CLOSE, N_NOBODY,
	N_INTERIM, N_INTERIM_LONGER, N_BODY_AT_LIMIT, N_BODY_OVER_LIMIT, N_TOOBIG, N_BIGHDR, N_BOUNDARY, N_EARLY, N_MUT,
	N_TRUNC, N_CHUNK_OVER_1M, N_HDR_OVER_4K, N_CONN_FAILED_ADDR, N_ALL_ADDR_FAILED, N_RST,
	N_F_RECV_SHORT, N_F_RECV_EAGAIN, N_F_RECV_EINTR, N_F_SEND_SHORT, N_F_SEND_EAGAIN, N_F_SEND_EINTR, N_F_SPUR,
	N_F_POLL_EINTR, N_F_ALLOC, N_POLLS, N_RUNS, N_LOOP_FAIL, N_SEGS, N_ONEBYTE, N_BYTES, N_CB_NONZERO, N_TLS, N_TLS_MIX,
	N_KEEPALIVE
};
const char * const engine_counters[] = {
	"requests", "callbacks", "callback_null", "callback_response", "probe_cancelled", "wellformed_responses",
	"hostile_responses", "framing_content_length", "framing_chunked", "framing_close", "framing_no_body",
	"probe_interim_1xx", "probe_interim_longer_than_final", "probe_body_exactly_at_limit", "probe_body_over_limit",
	"probe_toobig_reported", "probe_headers_over_64k", "probe_placed_at_buffer_boundary", "probe_server_answers_early",
	"fault_mutations_applied", "fault_truncated_stream", "probe_chunk_over_1MiB", "probe_header_block_over_4k",
	"probe_connect_address_failed", "probe_all_addresses_failed", "fault_connection_reset",
	"fault_recv_short", "fault_recv_eagain", "fault_recv_eintr", "fault_send_short", "fault_send_eagain",
	"fault_send_eintr", "fault_poll_spurious", "fault_poll_eintr", "fault_alloc_failed", "polls", "events_run_calls",
	"probe_loop_returned_error", "segments_delivered", "probe_single_byte_segments", "response_bytes",
	"probe_callback_returned_nonzero", "requests_over_tls_stub", "probe_tls_and_plain_requests_in_one_process",
	"probe_server_keeps_connection_open", NULL
};

#define AF_SINCE(before) (simalloc_failed != (before))

/* ---------- byte buffer ---------- */
struct bb { uint8_t * p; size_t n, cap; };

static void
bb_add(struct bb * b, const void * s, size_t n)
{

	if (b->n + n + 1 > b->cap) {
		b->cap = (b->n + n) * 2 + 256;
		b->p = realloc(b->p, b->cap);
		if (b->p == NULL)
			sim_internal("out of memory");
	}
	memcpy(b->p + b->n, s, n);
	b->n += n;
}

static void bb_str(struct bb * b, const char * s) { bb_add(b, s, strlen(s)); }

static void
bb_insert(struct bb * b, size_t pos, const void * s, size_t n)
{

	if (pos > b->n)
		pos = b->n;
	bb_add(b, s, n);	/* grow */
	memmove(b->p + pos + n, b->p + pos, b->n - n - pos);
	memcpy(b->p + pos, s, n);
}

static uint64_t
h64(uint64_t a, uint64_t b)
{
	uint64_t x = a * 0x9e3779b97f4a7c15ULL + b * 0xbf58476d1ce4e5b9ULL + 0x1234567;

	x ^= x >> 29;
	x *= 0x94d049bb133111ebULL;
	x ^= x >> 32;
	return (x);
}

/* ---------- expected response (known by construction) ---------- */
#define MAXH 64
struct expect {
	int status;
	int nh;
	char * hname[MAXH];
	char * hval[MAXH];
	uint8_t * body;
	size_t bodylen;
	int known;		/* the stream is well formed: the expectation is exact */
};
static struct expect EX;
static struct bb RESP;			/* the server's byte stream */
static struct bb REQ;			/* the request bytes the server must receive */
static size_t boundary_target = (size_t)-1;	/* offset of an interesting byte (for buffer-boundary placement) */
static size_t chunk_off[64];			/* offsets of the chunk-size lines of the final response */
static int nchunk_off;

/* ---------- building a response from plan lines ---------- */
static const char tokch[] = "abcdefghijklmnopqrstuvwxyzABCDEFGHIJKLMNOPQRSTUVWXYZ0123456789-";
static const char valch[] = "abcdefghijklmnopqrstuvwxyzABCDEFGHIJKLMNOPQRSTUVWXYZ0123456789-_.,;=/()<>@[]{}\"'!#$%&*+?^`|~:";

static void
gen_header(uint64_t seed, int idx, struct bb * out, int record)
{
	uint64_t r = h64(seed, (uint64_t)idx);
	int nlen = 1 + (int)(r % 18), vlen, i, ows1, ows2;
	char name[64], val[600];

	r = h64(r, 1);
	switch (r % 8) {
	case 0: vlen = 0; break;
	case 1: vlen = 1; break;
	case 7: vlen = 200 + (int)((r >> 8) % 300); break;
	default: vlen = 2 + (int)((r >> 8) % 50); break;
	}
	name[0] = 'X';
	name[1] = '-';
	for (i = 0; i < nlen; i++)
		name[2 + i] = tokch[h64(r, (uint64_t)(100 + i)) % (sizeof(tokch) - 1)];
	name[2 + nlen] = 0;
	for (i = 0; i < vlen; i++)
		val[i] = valch[h64(r, (uint64_t)(1000 + i)) % (sizeof(valch) - 1)];
	/* inner whitespace is fine; the ends must not be whitespace (they would be trimmed) */
	if (vlen > 4 && (r >> 20) % 3 == 0)
		val[vlen / 2] = ' ';
	if (vlen > 6 && (r >> 22) % 5 == 0)
		val[vlen / 3] = '\t';
	val[vlen] = 0;
	ows1 = (int)((r >> 30) % 4);
	ows2 = (int)((r >> 34) % 3);
	bb_str(out, name);
	bb_str(out, ":");
	for (i = 0; i < ows1; i++)
		bb_str(out, (h64(r, (uint64_t)(50 + i)) & 1) ? " " : "\t");
	bb_str(out, val);
	for (i = 0; i < ows2; i++)
		bb_str(out, (h64(r, (uint64_t)(60 + i)) & 1) ? " " : "\t");
	bb_str(out, "\r\n");
	if (record && EX.nh < MAXH) {
		EX.hname[EX.nh] = strdup(name);
		EX.hval[EX.nh] = strdup(val);
		EX.nh++;
	}
}

static void
record_header(const char * name, const char * val)
{

	if (EX.nh < MAXH) {
		EX.hname[EX.nh] = strdup(name);
		EX.hval[EX.nh] = strdup(val);
		EX.nh++;
	}
}

/*
 * resp <i> status minor framing bodylen bodyseed reasonlen nhdr hdrseed pad
 *   framing: 0 Content-Length, 1 chunked, 2 until close, 3 no framing header and no body (HEAD/204/304/1xx)
 * chunks <i> | size,style,extlen ...      (framing 1; sizes are clipped to the body; the rest goes into a last chunk)
 */
static void
build_response(const struct plan * P, const struct pline * l, int is_final, int ishead, size_t * hdrblock_len)
{
	int status = (int)l->a[0], minor = (int)l->a[1], framing = (int)l->a[2];
	size_t bodylen = l->nargs > 3 && l->a[3] > 0 ? (size_t)l->a[3] : 0;
	uint64_t bodyseed = l->nargs > 4 ? (uint64_t)l->a[4] : 0;
	int reasonlen = l->nargs > 5 ? (int)l->a[5] : 2;
	int nhdr = l->nargs > 6 ? (int)l->a[6] : 0;
	uint64_t hdrseed = l->nargs > 7 ? (uint64_t)l->a[7] : 0;
	size_t pad = l->nargs > 8 && l->a[8] > 0 ? (size_t)l->a[8] : 0;
	char tmp[128];
	int i, fpos;
	size_t start = RESP.n, o;
	int nobody;

	if (status < 100)
		status = 100;
	if (status > 599)
		status = 599;
	if (bodylen > (3u << 20))
		bodylen = 3u << 20;
	if (nhdr < 0)
		nhdr = 0;
	if (nhdr > 40)
		nhdr = 40;
	if (reasonlen < 0)
		reasonlen = 0;
	if (reasonlen > 40)
		reasonlen = 40;
	if (pad > 70000)
		pad = 70000;
	framing &= 3;
	nobody = (status < 200 || status == 204 || status == 304 || (ishead && is_final));
	snprintf(tmp, sizeof(tmp), "HTTP/1.%d %d ", minor & 1, status);
	bb_str(&RESP, tmp);
	for (i = 0; i < reasonlen; i++) {
		char c = (i % 7 == 3) ? ' ' : (char)('A' + h64(hdrseed, (uint64_t)(7000 + i)) % 26);

		bb_add(&RESP, &c, 1);
	}
	bb_str(&RESP, "\r\n");
	if (is_final) {
		EX.status = status;
		EX.nh = 0;
	}
	if (pad > 0) {
		char * p = malloc(pad + 1);

		memset(p, 'p', pad);
		p[pad] = 0;
		bb_str(&RESP, "X-Pad: ");
		bb_str(&RESP, p);
		bb_str(&RESP, "\r\n");
		if (is_final)
			record_header("X-Pad", p);
		free(p);
	}
	fpos = nhdr > 0 ? (int)(h64(hdrseed, 999) % (uint64_t)(nhdr + 1)) : 0;
	if (h64(hdrseed, 4242) % 6 == 0) {
		/* legal headers whose names merely resemble the framing headers (they must not influence framing) */
		static const char * const near[] = { "Content-Length-Original", "Transfer-Encoding-Supported", "X-Content-Length",
		    "Content-Lengthy", "Transfer-Encodings", "Content-Length2", "X-Transfer-Encoding", "Content-Len" };
		static const char * const nval[] = { "3", "chunked", "0", "99999999999", "gzip", "7", "identity", "chunked, gzip" };
		int w = (int)(h64(hdrseed, 4243) % 8), v = (int)(h64(hdrseed, 4244) % 8);

		bb_str(&RESP, near[w]);
		bb_str(&RESP, ": ");
		bb_str(&RESP, nval[v]);
		bb_str(&RESP, "\r\n");
		if (is_final)
			record_header(near[w], nval[v]);
	}
	for (i = 0; i <= nhdr; i++) {
		if (i == fpos) {
			if (framing == 0) {
				/* Content-Length, with leading zeros / trailing OWS sometimes */
				int z = (int)(h64(hdrseed, 555) % 4);

				if (h64(hdrseed, 557) % 8 == 0) {
					/* RFC 2616: the identity transfer-coding changes nothing; Content-Length still frames the body */
					bb_str(&RESP, "Transfer-Encoding: identity\r\n");
					if (is_final)
						record_header("Transfer-Encoding", "identity");
				}
				snprintf(tmp, sizeof(tmp), "%s%zu", z == 1 ? "00" : "", bodylen);
				bb_str(&RESP, "Content-Length: ");
				bb_str(&RESP, tmp);
				bb_str(&RESP, z == 2 ? " \r\n" : "\r\n");
				if (is_final)
					record_header("Content-Length", tmp);
			} else if (framing == 1) {
				/* a list of codings ending in chunked is chunked framing too */
				static const char * const te[] = { "chunked", "chunked", "chunked", "chunked", "gzip, chunked", "identity, chunked",
				    "x-custom ,chunked", "chunked" };
				const char * v = te[h64(hdrseed, 556) % 8];

				bb_str(&RESP, "Transfer-Encoding: ");
				bb_str(&RESP, v);
				bb_str(&RESP, "\r\n");
				if (is_final)
					record_header("Transfer-Encoding", v);
			}
		}
		if (i < nhdr)
			gen_header(hdrseed, i, &RESP, is_final);
	}
	bb_str(&RESP, "\r\n");
	*hdrblock_len = RESP.n - start;
	if (!is_final)
		return;
	/* body */
	free(EX.body);
	EX.body = NULL;
	EX.bodylen = 0;
	if (nobody) {
		/* a server may still (wrongly) send bytes after a bodiless response; well-formed ones do not */
		return;
	}
	EX.body = malloc(bodylen + 1);
	for (o = 0; o < bodylen; o++)
		EX.body[o] = (uint8_t)(h64(bodyseed, o) >> 13);
	EX.bodylen = bodylen;
	if (framing == 0 || framing == 2 || framing == 3) {
		bb_add(&RESP, EX.body, bodylen);
	} else {
		const struct pline * c;
		size_t done = 0;
		int k, nc;
		char name[16];

		snprintf(name, sizeof(name), "%d", atoi(l->name));
		c = plan_find(P, "chunks", name);
		nc = c ? c->ntok : 0;
		for (k = 0; k <= nc && done < bodylen; k++) {
			size_t sz;
			int style = 0, extlen = 0, j;

			if (k < nc) {
				sz = c->tok[k].n > 0 && c->tok[k].v[0] > 0 ? (size_t)c->tok[k].v[0] : 1;
				style = c->tok[k].n > 1 ? (int)c->tok[k].v[1] : 0;
				extlen = c->tok[k].n > 2 ? (int)c->tok[k].v[2] : 0;
			} else
				sz = bodylen - done;
			if (sz > bodylen - done)
				sz = bodylen - done;
			if (extlen < 0)
				extlen = 0;
			if (extlen > 100)
				extlen = 100;
			if (boundary_target == (size_t)-1 && k == (nc > 1 ? 1 : 0))
				boundary_target = RESP.n;	/* start of a chunk-size line */
			if (nchunk_off < 64)
				chunk_off[nchunk_off++] = RESP.n;
			switch (style & 3) {
			case 1: snprintf(tmp, sizeof(tmp), "%zX", sz); break;
			case 2: snprintf(tmp, sizeof(tmp), "000%zx", sz); break;
			default: snprintf(tmp, sizeof(tmp), "%zx", sz); break;
			}
			bb_str(&RESP, tmp);
			if (extlen > 0) {
				bb_str(&RESP, ";");
				for (j = 1; j < extlen; j++) {
					char ch = tokch[h64(bodyseed, (uint64_t)(90000 + j)) % (sizeof(tokch) - 1)];

					bb_add(&RESP, &ch, 1);
				}
			}
			bb_str(&RESP, "\r\n");
			bb_add(&RESP, EX.body + done, sz);
			bb_str(&RESP, "\r\n");
			done += sz;
			if (sz > (1u << 20))
				R->cnt[N_CHUNK_OVER_1M]++;
		}
		/* last chunk, optional trailer section */
		if (nchunk_off < 64)
			chunk_off[nchunk_off++] = RESP.n;
		bb_str(&RESP, (h64(bodyseed, 77) & 1) ? "0\r\n" : "000;last\r\n");
		if (h64(bodyseed, 78) % 3 == 0)
			bb_str(&RESP, "X-Trailer: t\r\n");
		bb_str(&RESP, "\r\n");
	}
}

/* ---------- hostile mutations (C08) ---------- */
/* mut | kind,a,b   applied to RESP in order */
static void
apply_mutations(const struct pline * m)
{
	int i;

	for (i = 0; i < m->ntok; i++) {
		const struct tok * t = &m->tok[i];
		int kind = t->n > 0 ? (int)(t->v[0] < 0 ? -t->v[0] : t->v[0]) : 0;
		uint64_t a = t->n > 1 ? (uint64_t)(t->v[1] < 0 ? -t->v[1] : t->v[1]) : 0;
		uint64_t b = t->n > 2 ? (uint64_t)(t->v[2] < 0 ? -t->v[2] : t->v[2]) : 0;
		size_t pos = RESP.n ? (size_t)(a % (RESP.n + 1)) : 0;
		static const char * const chunklines[] = {
			"\r\n", " \r\n", "   \t \r\n", "-5\r\n", "0x10\r\n", "fffffffffffffffff\r\n", "ffffffffffffffff\r\n",
			"7fffffffffffffff\r\n", " 5\r\n", "\t5\r\n", "5", "g\r\n", "+5\r\n", "5 ; x\r\n", "\n", "\r", "0x\r\n", "-0\r\n",
			"00000000000000000000000000000000000000000005\r\n", ";\r\n", "fffffffffffffffe\r\n", "-1\r\n",
			"fffffffffffffffd\r\n", "fffffffffffffff0\r\n", "ffffffffffffff00\r\n", "-3\r\n", "-16\r\n", "-4096\r\n",
			"8000000000000000\r\n", "7ffffffffffffff0\r\n", "fffffffffffff000\r\n", "-2\r\n", "100000000\r\n" };
		static const char * const statuslines[] = {
			"HTTP/2.0 200 OK\r\n", "HTTP/1.1 99 X\r\n", "HTTP/1.1 600 X\r\n", "HTTP/1.1 99999999999999999999 X\r\n",
			"HTTP/1.1 -200 X\r\n", "HTTP/1.1\r\n", "HTTP/1.1 200\r\n", "ICY 200 OK\r\n", "HTTP/1.1  200 OK\r\n", "\r\n",
			"HTTP/-1.1 200 OK\r\n", "HTTP/1.99999999999 200 OK\r\n", "HTTP/1.1 2e2 OK\r\n", "HTTP/1.1 0x64 OK\r\n" };
		static const char * const hdrlines[] = {
			"Content-Length: -1\r\n", "Content-Length: 18446744073709551615\r\n", "Content-Length: 18446744073709551616\r\n",
			"Content-Length: abc\r\n", "Content-Length: 5 5\r\n", "Content-Length:\r\n", "Content-Length: 0x10\r\n",
			"Transfer-Encoding: chunked\r\n", "Transfer-Encoding: gzip, chunked\r\n", "Transfer-Encoding: notchunkedx\r\n",
			"NoColonHere\r\n", ": empty name\r\n", "Content-Length: 4294967296\r\n", "Content-Length: 9223372036854775807\r\n",
			"content-length: 3\r\n", "Content-Length : 3\r\n", " folded: x\r\n", "Content-Length: +3\r\n", "Content-Length:  7\r\n" };

		R->cnt[N_MUT]++;
		EX.known = 0;
		switch (kind % 15) {
		case 0:	/* truncate */
			RESP.n = pos;
			R->cnt[N_TRUNC]++;
			break;
		case 1:	/* overwrite one byte */
			if (RESP.n > 0)
				RESP.p[pos % RESP.n] = (uint8_t)b;
			break;
		case 2:	/* insert NUL */
			bb_insert(&RESP, pos, "\0", 1);
			break;
		case 3:	/* delete up to b%64+1 bytes */
			if (RESP.n > 0) {
				size_t p2 = pos % RESP.n, n = (size_t)(b % 64) + 1;

				if (n > RESP.n - p2)
					n = RESP.n - p2;
				memmove(RESP.p + p2, RESP.p + p2 + n, RESP.n - p2 - n);
				RESP.n -= n;
			}
			break;
		case 4: {	/* replace the a-th CRLF-terminated line after the header block by a bad chunk-size line */
			size_t hdrend = 0, k, ln = 0, ls;
			const char * s = chunklines[b % (sizeof(chunklines) / sizeof(chunklines[0]))];

			for (k = 0; k + 4 <= RESP.n; k++)
				if (memcmp(RESP.p + k, "\r\n\r\n", 4) == 0) {
					hdrend = k + 4;
					break;
				}
			ls = hdrend;
			if (nchunk_off > 0 && (a / 4) % 3 != 0 && i == 0) {
				/* aim at a real chunk-size line of the body (the second and later ones matter too) */
				ls = chunk_off[(a / 12) % (uint64_t)nchunk_off];
				if (ls > RESP.n)
					ls = hdrend;
			} else
			for (k = hdrend; k + 2 <= RESP.n && ln < (a % 4); k++)
				if (memcmp(RESP.p + k, "\r\n", 2) == 0) {
					ln++;
					ls = k + 2;
				}
			/* cut the old line */
			for (k = ls; k + 2 <= RESP.n; k++)
				if (memcmp(RESP.p + k, "\r\n", 2) == 0)
					break;
			if (k + 2 <= RESP.n) {
				memmove(RESP.p + ls, RESP.p + k + 2, RESP.n - k - 2);
				RESP.n -= k + 2 - ls;
			}
			bb_insert(&RESP, ls, s, strlen(s));
			boundary_target = ls;
			break;
		}
		case 5: {	/* long junk line (300+ bytes) at pos */
			char junk[400];

			memset(junk, (b & 1) ? ' ' : 'f', sizeof(junk));
			bb_insert(&RESP, pos, junk, 257 + (size_t)(b % 140));
			break;
		}
		case 6: {	/* replace the status line */
			size_t k;
			const char * s = statuslines[b % (sizeof(statuslines) / sizeof(statuslines[0]))];

			for (k = 0; k + 2 <= RESP.n; k++)
				if (memcmp(RESP.p + k, "\r\n", 2) == 0)
					break;
			if (k + 2 <= RESP.n) {
				memmove(RESP.p, RESP.p + k + 2, RESP.n - k - 2);
				RESP.n -= k + 2;
			}
			bb_insert(&RESP, 0, s, strlen(s));
			break;
		}
		case 7: {	/* insert a bad/duplicate header line right after the status line */
			size_t k;
			const char * s = hdrlines[b % (sizeof(hdrlines) / sizeof(hdrlines[0]))];

			for (k = 0; k + 2 <= RESP.n; k++)
				if (memcmp(RESP.p + k, "\r\n", 2) == 0)
					break;
			bb_insert(&RESP, k + 2 <= RESP.n ? k + 2 : RESP.n, s, strlen(s));
			break;
		}
		case 8: {	/* headers beyond 64 KiB: giant header inserted after the status line */
			size_t k, n = 65000 + (size_t)(b % 2000);
			char * g = malloc(n + 16);

			memcpy(g, "X-Big: ", 7);
			memset(g + 7, 'b', n);
			if (a & 1) {
				memcpy(g + 7 + n, "\r\n", 2);
				n += 2;
			}
			for (k = 0; k + 2 <= RESP.n; k++)
				if (memcmp(RESP.p + k, "\r\n", 2) == 0)
					break;
			bb_insert(&RESP, k + 2 <= RESP.n ? k + 2 : RESP.n, g, 7 + n);
			free(g);
			R->cnt[N_BIGHDR]++;
			break;
		}
		case 9: {	/* flood of 1xx responses in front */
			size_t n = 1 + (size_t)(b % 60), k;

			for (k = 0; k < n; k++)
				bb_insert(&RESP, 0, "HTTP/1.1 100 Continue\r\n\r\n", 25);
			break;
		}
		case 10:	/* append junk after the end */
			bb_str(&RESP, "\r\nGARBAGE\r\n\r\n0\r\n\r\n");
			break;
		case 12: {	/* a very long invalid status line (the library quotes it in a warning) */
			size_t k, n = 4000 + (size_t)(b % 3000);
			char * g = malloc(n + 32);

			memcpy(g, "HTTP/1.1 abc ", 13);
			memset(g + 13, 'S', n);
			memcpy(g + 13 + n, "\r\n", 2);
			for (k = 0; k + 2 <= RESP.n; k++)
				if (memcmp(RESP.p + k, "\r\n", 2) == 0)
					break;
			if (k + 2 <= RESP.n) {
				memmove(RESP.p, RESP.p + k + 2, RESP.n - k - 2);
				RESP.n -= k + 2;
			}
			bb_insert(&RESP, 0, g, 15 + n);
			free(g);
			break;
		}
		case 13: {	/* a very long non-numeric Content-Length value */
			size_t k, n = 4000 + (size_t)(b % 3000);
			char * g = malloc(n + 32);

			memcpy(g, "Content-Length: ", 16);
			memset(g + 16, '9', n);
			g[16 + n / 2] = 'x';
			memcpy(g + 16 + n, "\r\n", 2);
			for (k = 0; k + 2 <= RESP.n; k++)
				if (memcmp(RESP.p + k, "\r\n", 2) == 0)
					break;
			bb_insert(&RESP, k + 2 <= RESP.n ? k + 2 : RESP.n, g, 18 + n);
			free(g);
			break;
		}
		case 14: {	/* server text that the client quotes in a warning, containing printf conversions */
			static const char * const f[] = { "HTTP/1.1 %s%s%s%s%n two hundred\r\n", "HTTP/1.%d 2%c0 %n%n\r\n", "BOGUS %x%x%x%x%x%x%x%x%s\r\n",
			    "Content-Length: %s%n\r\n", "Content-Length: 12%d\r\n" };
			const char * t = f[b % 5];
			size_t k;

			for (k = 0; k + 2 <= RESP.n; k++)
				if (memcmp(RESP.p + k, "\r\n", 2) == 0)
					break;
			if (b % 5 < 3) {
				/* replaces the status line */
				if (k + 2 <= RESP.n) {
					memmove(RESP.p, RESP.p + k + 2, RESP.n - k - 2);
					RESP.n -= k + 2;
				}
				bb_insert(&RESP, 0, t, strlen(t));
			} else
				bb_insert(&RESP, k + 2 <= RESP.n ? k + 2 : RESP.n, t, strlen(t));
			break;
		}
		case 11:	/* swap CRLF for bare LF somewhere */
			if (RESP.n > 2) {
				size_t k;

				for (k = pos % RESP.n; k + 2 <= RESP.n; k++)
					if (memcmp(RESP.p + k, "\r\n", 2) == 0) {
						memmove(RESP.p + k, RESP.p + k + 1, RESP.n - k - 1);
						RESP.n--;
						break;
					}
			}
			break;
		}
	}
}

/* ---------- the request ---------- */
static struct http_request HREQ;
static struct http_header hreq_headers[12];
static char hreq_store[12][2][64];
static char hreq_path[128];
static uint8_t * hreq_body;
static const char * const methods[] = { "GET", "HEAD", "POST", "PUT", "DELETE", "head", "Head", "HEADER", "get", "OPTIONS" };
#define NMETHODS 10

static void
build_request(const struct plan * P)
{
	int m = (int)plan_knob(P, "method", 0), nh = (int)plan_knob(P, "req_nhdr", 1), i, j;
	size_t blen = (size_t)plan_knob(P, "req_bodylen", 0), plen = (size_t)plan_knob(P, "req_pathlen", 1);
	uint64_t seed = (uint64_t)plan_knob(P, "req_seed", 0);

	if (m < 0)
		m = -m;
	m %= NMETHODS;
	if (nh < 0)
		nh = 0;
	if (nh > 12)
		nh = 12;
	if (plen < 1)
		plen = 1;
	if (plen > 100)
		plen = 100;
	if (blen > 100000)
		blen = 100000;
	hreq_path[0] = '/';
	for (i = 1; i < (int)plen; i++)
		hreq_path[i] = tokch[h64(seed, (uint64_t)i) % (sizeof(tokch) - 1)];
	hreq_path[plen] = 0;
	for (i = 0; i < nh; i++) {
		int nl = 1 + (int)(h64(seed, (uint64_t)(100 + i)) % 20), vl = (int)(h64(seed, (uint64_t)(200 + i)) % 40);

		for (j = 0; j < nl; j++)
			hreq_store[i][0][j] = tokch[h64(seed, (uint64_t)(1000 + i * 64 + j)) % (sizeof(tokch) - 1)];
		hreq_store[i][0][nl] = 0;
		for (j = 0; j < vl; j++)
			hreq_store[i][1][j] = valch[h64(seed, (uint64_t)(5000 + i * 64 + j)) % (sizeof(valch) - 1)];
		hreq_store[i][1][vl] = 0;
		hreq_headers[i].header = hreq_store[i][0];
		hreq_headers[i].value = hreq_store[i][1];
	}
	hreq_body = malloc(blen + 1);
	for (i = 0; i < (int)blen; i++)
		hreq_body[i] = (uint8_t)(h64(seed, (uint64_t)(9000 + i)) >> 9);
	HREQ.method = methods[m];
	HREQ.path = hreq_path;
	HREQ.nheaders = (size_t)nh;
	HREQ.headers = hreq_headers;
	HREQ.bodylen = blen;
	HREQ.body = blen ? hreq_body : NULL;
	/* what the server must receive */
	bb_str(&REQ, methods[m]);
	bb_str(&REQ, " ");
	bb_str(&REQ, hreq_path);
	bb_str(&REQ, " HTTP/1.1\r\n");
	for (i = 0; i < nh; i++) {
		bb_str(&REQ, hreq_store[i][0]);
		bb_str(&REQ, ": ");
		bb_str(&REQ, hreq_store[i][1]);
		bb_str(&REQ, "\r\n");
	}
	bb_str(&REQ, "\r\n");
	bb_add(&REQ, hreq_body, blen);
}

/* ---------- run state ---------- */
static struct sock_addr * sas[8];
static int naddr, addr_beh[8];
static uint64_t addr_delay[8];
static int next_addr;
static struct vsock * server;		/* the connection that succeeded */
static void * hcookie;
static int req_live, ncb, cancelled, got_resp, loop_failed;
static size_t maxrlen;
static int answered_early, all_addr_fail;
static const struct plan * PLAN;
static int hostile;
static int cancel_after;		/* cancel after this many loop iterations (-1 never) */
static int chain_left;			/* issue another, identical request from inside the callback this many times */
static int expect_cb = 1;
static int cb_rc;			/* what the (last) callback returns to the event loop */
static int cb_rc_returned;
static int use_tls;			/* https_request instead of http_request */
static int tls_mix, nissued;		/* alternate between the two from request to request */

static void
attach_server(struct vsock * vs)
{
	const struct pline * seg = plan_find(PLAN, "seg", "0");
	const struct pline * tp;
	struct pev ev[600];
	int nev = 0, i;
	size_t left = RESP.n, early;
	int endkind = (int)plan_knob(PLAN, "end", 0);

	server = vs;
	vk_set_rx(vs, RESP.p, RESP.n);
	vs->txwin = (size_t)plan_knob(PLAN, "txwin", 65536);
	if (vs->txwin == 0)
		vs->txwin = 1;
	early = (size_t)plan_knob(PLAN, "early", 0);
	answered_early = (early != 0);
	if (answered_early)
		R->cnt[N_EARLY]++;
	{
		/*
		 * The server reads the request: each time the client has filled the
		 * window another `drain' bytes of room open up (backpressure, but
		 * the whole request can always be sent).
		 */
		struct pev dr[400];
		int nd = 0;
		size_t chunk = (size_t)plan_knob(PLAN, "drain", 4096) + 1, have = vs->txwin;

		while (have < REQ.n && nd < 399) {
			dr[nd].type = PE_DRAIN;
			dr[nd].delay_ns = (uint64_t)(plan_knob(PLAN, "drain_delay_us", 0)) * 1000;
			dr[nd].arg = (int64_t)chunk;
			dr[nd].need_tx = (int64_t)have;
			have += chunk;
			nd++;
		}
		if (have < REQ.n) {
			dr[nd].type = PE_DRAIN;
			dr[nd].delay_ns = 0;
			dr[nd].arg = (int64_t)(REQ.n - have + 1);
			dr[nd].need_tx = (int64_t)have;
			nd++;
		}
		if (!answered_early && nd > 0)
			vk_script(vs, dr, nd);
		i = 0;
		while (left > 0 && nev < 590) {
			size_t n = left;
			uint64_t d = 0;

			if (seg != NULL && seg->ntok > 0) {
				const struct tok * t = &seg->tok[i % seg->ntok];

				n = t->n > 0 && t->v[0] > 0 ? (size_t)t->v[0] : 1;
				d = t->n > 1 && t->v[1] > 0 ? (uint64_t)t->v[1] : 0;
				i++;
			}
			if (n > left || nev == 589)
				n = left;
			ev[nev].type = PE_DELIVER;
			ev[nev].delay_ns = d * 1000;
			ev[nev].arg = (int64_t)n;
			ev[nev].need_tx = (nev == 0 && !answered_early) ? (int64_t)REQ.n : -1;
			nev++;
			left -= n;
			R->cnt[N_SEGS]++;
			if (n == 1)
				R->cnt[N_ONEBYTE]++;
		}
		if (RESP.n == 0 && !answered_early) {
			/* an empty response still waits for the request */
			ev[nev].type = PE_DRAIN;
			ev[nev].delay_ns = 0;
			ev[nev].arg = 1;
			ev[nev].need_tx = (int64_t)REQ.n;
			nev++;
		}
		if (endkind == 2 && EX.known) {
			/* a keep-alive server: the framing alone tells the client where the response ends */
			R->cnt[N_KEEPALIVE]++;
		} else {
			ev[nev].type = (endkind == 1) ? PE_RST : PE_EOF;
			ev[nev].delay_ns = (uint64_t)plan_knob(PLAN, "end_delay_us", 0) * 1000;
			ev[nev].arg = (endkind == 1) ? ECONNRESET : 0;
			ev[nev].need_tx = -1;
			if (endkind == 1)
				R->cnt[N_RST]++;
			nev++;
		}
		vk_script(vs, ev, nev);
		if (answered_early && nd > 0)
			vk_script(vs, dr, nd);
	}
	/* tapes */
	if ((tp = plan_find(PLAN, "tape", "recv")) != NULL) {
		struct tdir d[256];
		int nd = 0;

		for (i = 0; i < tp->ntok && nd < 256; i++, nd++) {
			d[nd].kind = tp->tok[i].n > 0 ? (int)(tp->tok[i].v[0] < 0 ? -tp->tok[i].v[0] : tp->tok[i].v[0]) % 4 : 0;
			d[nd].arg = tp->tok[i].n > 1 ? tp->tok[i].v[1] : 0;
		}
		vk_tape(&vs->t_recv, d, nd);
	}
	if ((tp = plan_find(PLAN, "tape", "send")) != NULL) {
		struct tdir d[256];
		int nd = 0;

		for (i = 0; i < tp->ntok && nd < 256; i++, nd++) {
			d[nd].kind = tp->tok[i].n > 0 ? (int)(tp->tok[i].v[0] < 0 ? -tp->tok[i].v[0] : tp->tok[i].v[0]) % 4 : 0;
			d[nd].arg = tp->tok[i].n > 1 ? tp->tok[i].v[1] : 0;
		}
		vk_tape(&vs->t_send, d, nd);
	}
}

static int
on_socket(void)
{

	if (next_addr < naddr && addr_beh[next_addr] == 0) {
		next_addr++;
		R->cnt[N_CONN_FAILED_ADDR]++;
		return (EMFILE);
	}
	return (0);
}

static int
on_connect(struct vsock * vs, int port, struct vk_connect_answer * a)
{
	int j = port - 2000;

	if (j < 0 || j >= naddr)
		return (0);
	next_addr = j + 1;
	vs->addr_idx = j;
	vs->txwin = 1;
	a->delay_ns = addr_delay[j] * 1000;
	switch (addr_beh[j]) {
	case 1:
		a->rc_errno = ECONNREFUSED;
		R->cnt[N_CONN_FAILED_ADDR]++;
		break;
	case 2:
		a->rc_errno = EINPROGRESS;
		a->async_result_errno = ECONNREFUSED;
		R->cnt[N_CONN_FAILED_ADDR]++;
		break;
	case 3:
		a->rc_errno = EINPROGRESS;
		a->async_result_errno = 0;
		attach_server(vs);
		break;
	case 5:
		a->rc_errno = EINTR;
		a->async_result_errno = 0;
		attach_server(vs);
		break;
	default:
		a->rc_errno = 0;
		attach_server(vs);
		break;
	}
	return (1);
}

static int
on_deadlock(void)
{

	LIB_ENTER();
	events_interrupt();
	LIB_LEAVE();
	return (1);
}

/* ---------- the user callback: C08 and C09 oracles ---------- */
static int http_callback(void *, struct http_response *);

/* Plain HTTP, or HTTPS through https.c with the null-cipher stand-in for the TLS record layer. */
static void *
issue_request(void)
{

	if (tls_mix) {
		/* one process talks HTTPS to one server and plain HTTP to another: the TLS glue stays installed */
		use_tls = (tls_mix + nissued) & 1;
		if (nissued > 0)
			R->cnt[N_TLS_MIX]++;
	}
	nissued++;
	{
		/*
		 * http.h: only the request *body* has to stay valid until the callback.  Everything else (the
		 * request structure, method, path, header array and strings, the host name) is handed over in
		 * short-lived heap copies which are overwritten and released as soon as the call returns; a pointer
		 * kept by the library is then a use-after-free for the sanitizer.
		 */
		int d = simalloc_depth, i;
		struct http_request * rq;
		struct http_header * hs;
		char * host;
		void * c;
		size_t nh = HREQ.nheaders;

		simalloc_depth = 0;
		rq = malloc(sizeof(*rq));
		hs = malloc((nh + 1) * sizeof(*hs));
		for (i = 0; i < (int)nh; i++) {
			hs[i].header = strdup(HREQ.headers[i].header);
			hs[i].value = strdup(HREQ.headers[i].value);
		}
		rq->method = strdup(HREQ.method);
		rq->path = strdup(HREQ.path);
		rq->nheaders = nh;
		rq->headers = hs;
		rq->bodylen = HREQ.bodylen;
		rq->body = HREQ.body;
		host = strdup("server.example.org");
		simalloc_depth = d;
		if (use_tls) {
			R->cnt[N_TLS]++;
			c = https_request(sas, rq, maxrlen, http_callback, NULL, host);
		} else
			c = http_request(sas, rq, maxrlen, http_callback, NULL);
		simalloc_depth = 0;
		for (i = 0; i < (int)nh; i++) {
			memset((char *)(uintptr_t)hs[i].header, '#', strlen(hs[i].header));
			memset((char *)(uintptr_t)hs[i].value, '#', strlen(hs[i].value));
			free((char *)(uintptr_t)hs[i].header);
			free((char *)(uintptr_t)hs[i].value);
		}
		memset((char *)(uintptr_t)rq->method, 'X', strlen(rq->method));
		memset((char *)(uintptr_t)rq->path, 'X', strlen(rq->path));
		memset(host, 'X', strlen(host));
		free((char *)(uintptr_t)rq->method);
		free((char *)(uintptr_t)rq->path);
		free(host);
		free(hs);
		memset(rq, 0x5a, sizeof(*rq));
		free(rq);
		simalloc_depth = d;
		return (c);
	}
}

static void
maybe_chain(void)
{

	if (chain_left <= 0)
		return;
	chain_left--;
	/* a second, identical request started from inside the callback of the first (same process, same library state) */
	TR(0x03, 0, 0, "http_request again, from inside the callback");
	next_addr = 0;
	LIB_ENTER();
	hcookie = issue_request();
	LIB_LEAVE();
	if (hcookie != NULL) {
		req_live = 1;
		expect_cb++;
		R->cnt[N_REQ]++;
	} else if (simalloc_failed == 0)
		sim_viol("C08.once", "request-null", "http_request (from inside a callback) returned NULL without an allocation failure");
}

static int
http_callback(void * cookie, struct http_response * res)
{
	size_t i;
	CB_ENTER();

	(void)cookie;
	ncb++;
	R->cnt[N_CB]++;
	NOTE("HTTP CALLBACK %s", res ? "response" : "NULL");
	if (cancelled)
		sim_viol("C08.once", "after-cancel", "callback invoked after http_request_cancel");
	if (ncb > expect_cb)
		sim_viol("C08.once", "twice", "callback invoked %d times for %d request(s)", ncb, expect_cb);
	req_live = 0;
	if (res == NULL) {
		R->cnt[N_CB_NULL]++;
		sim_trh(0xC8, 0, 0);
		if (EX.known && !all_addr_fail && !AF_SINCE(0))
			sim_viol("C09.status", "null", "well-formed response (status %d, %zu body bytes, limit %zu) but the callback got NULL", EX.status, EX.bodylen, maxrlen);
		maybe_chain();
		if (cb_rc != 0 && !req_live) {
			cb_rc_returned = 1;
			R->cnt[N_CB_NONZERO]++;
			CB_LEAVE();
			return (cb_rc);
		}
		CB_LEAVE();
		return (0);
	}
	got_resp = 1;
	R->cnt[N_CB_RESP]++;
	sim_trh(0xC9, (uint64_t)res->status, res->bodylen);
	NOTE("  status=%d nheaders=%zu bodylen=%zd", res->status, res->nheaders, (ssize_t)res->bodylen);
	/* C08: ranges */
	if (res->status < 100 || res->status > 599)
		sim_viol("C08.status-range", "status", "response status %d is outside 100..599", res->status);
	if (res->bodylen == (size_t)(-1)) {
		R->cnt[N_TOOBIG]++;
		if (res->body != NULL)
			sim_viol("C08.body-null", "toobig-with-buffer", "oversized body reported (length -1) together with a non-NULL buffer");
	} else {
		volatile uint8_t sink = 0;

		if (res->bodylen > maxrlen)
			sim_viol("C08.body-limit", "limit", "body of %zu bytes handed over although the limit is %zu", res->bodylen, maxrlen);
		if (res->bodylen > 0 && res->body == NULL)
			sim_viol("C08.body-null", "null-body", "body length %zu with a NULL buffer", res->bodylen);
		for (i = 0; i < res->bodylen; i++)
			sink ^= res->body[i];	/* every byte must be readable (ASan) */
		(void)sink;
	}
	/* header strings must be readable NUL-terminated strings */
	for (i = 0; i < res->nheaders; i++) {
		volatile size_t l = strlen(res->headers[i].header) + strlen(res->headers[i].value);

		(void)l;
	}
	/* C09: exact decoding of a well-formed response */
	if (EX.known) {
		if (res->status != EX.status)
			sim_viol("C09.status", "status", "status %d, expected %d", res->status, EX.status);
		if (res->nheaders != (size_t)EX.nh)
			sim_viol("C09.headers", "count", "%zu headers, expected %d", res->nheaders, EX.nh);
		for (i = 0; i < res->nheaders; i++) {
			if (strcmp(res->headers[i].header, EX.hname[i]) != 0)
				sim_viol("C09.headers", "name", "header %zu is named \"%.40s\", expected \"%.40s\"", i, res->headers[i].header, EX.hname[i]);
			if (strcmp(res->headers[i].value, EX.hval[i]) != 0)
				sim_viol("C09.headers", "value", "header %zu (\"%.30s\") has value \"%.60s\", expected \"%.60s\"", i, EX.hname[i], res->headers[i].value, EX.hval[i]);
		}
		if (EX.bodylen <= maxrlen) {
			if (res->bodylen != EX.bodylen)
				sim_viol("C09.body", "length", "body length %zd, expected %zu (limit %zu)", (ssize_t)res->bodylen, EX.bodylen, maxrlen);
			if (EX.bodylen > 0 && memcmp(res->body, EX.body, EX.bodylen) != 0)
				sim_viol("C09.body", "bytes", "body bytes differ from what the server sent");
		} else if (res->bodylen != (size_t)(-1))
			sim_viol("C08.body-limit", "not-reported", "body of %zu bytes exceeds the limit %zu but was not reported as oversized", EX.bodylen, maxrlen);
	}
	/* the callback owns the body */
	free(res->body);
	maybe_chain();
	if (cb_rc != 0 && !req_live) {
		/* the application asks the event loop to stop by returning non-zero from its callback */
		cb_rc_returned = 1;
		R->cnt[N_CB_NONZERO]++;
		CB_LEAVE();
		return (cb_rc);
	}
	CB_LEAVE();
	return (0);
}

/* ---------- plan generation ---------- */
static void
gen_response(struct plan * P, struct prng * g, int idx, int status, int framing, size_t bodylen, int nhdr, size_t pad)
{
	char nm[8];

	snprintf(nm, sizeof(nm), "%d", idx);
	plan_add(P, "resp", nm, 9, (int64_t)status, (int64_t)prng_n(g, 2), (int64_t)framing, (int64_t)bodylen,
	    (int64_t)prng_n(g, 1000000), (int64_t)prng_n(g, 20), (int64_t)nhdr, (int64_t)prng_n(g, 1000000), (int64_t)pad);
	if (framing == 1) {
		struct pline * l = plan_add(P, "chunks", nm, 0);
		int nc = (int)prng_n(g, 8), k;

		for (k = 0; k < nc; k++) {
			size_t sz;

			switch (prng_n(g, 6)) {
			case 0: sz = 1; break;
			case 1: sz = 1 + prng_n(g, 16); break;
			case 2: sz = 4090 + prng_n(g, 12); break;
			case 3: sz = 1 + prng_n(g, 70000); break;
			default: sz = 1 + prng_n(g, 3000); break;
			}
			pline_tok(l, 3, (int64_t)sz, (int64_t)prng_n(g, 4), (int64_t)(prng_chance(g, 25) ? prng_n(g, 30) : 0));
		}
	}
}

void
engine_gen(struct plan * P, uint64_t seed, struct prng * g)
{
	int c09 = !strcmp(sim_prop, "C09"), c14 = !strcmp(sim_prop, "C14");
	int host = c09 ? 0 : (c14 ? prng_chance(g, 15) : prng_chance(g, 80));
	int method = (int)(prng_chance(g, 85) ? prng_n(g, 5) : prng_n(g, NMETHODS)), status, framing, nint, i, nhdr, na;
	size_t bodylen, mrl;
	struct pline * l;
	int segstyle;

	(void)seed;
	plan_add(P, "knob", "hostile", 1, (int64_t)host);
	plan_add(P, "knob", "method", 1, (int64_t)method);
	plan_add(P, "knob", "req_nhdr", 1, (int64_t)prng_n(g, 6));
	plan_add(P, "knob", "req_bodylen", 1, (int64_t)((method == 2 || method == 3) ? (prng_chance(g, 20) ? prng_n(g, 30000) : prng_n(g, 300)) : (prng_chance(g, 10) ? prng_n(g, 50) : 0)));
	plan_add(P, "knob", "req_pathlen", 1, (int64_t)(1 + prng_n(g, 40)));
	plan_add(P, "knob", "req_seed", 1, (int64_t)prng_n(g, 1000000));
	plan_add(P, "knob", "fd_base", 1, (int64_t)(prng_chance(g, 15) ? 3 + prng_n(g, 100) : prng_chance(g, 10) ? 0 : 3));
	plan_add(P, "knob", "syslog", 1, (int64_t)prng_chance(g, 20));
	plan_add(P, "knob", "bare_err", 1, (int64_t)prng_chance(g, 25));
	{
		int chain = prng_chance(g, 12) ? 1 + (int)prng_n(g, 2) : 0;

		plan_add(P, "knob", "chain", 1, (int64_t)chain);
		/* tls: 0 plain, 1 HTTPS, 2/3 alternate (plain first / HTTPS first) between chained requests */
		plan_add(P, "knob", "tls", 1, (int64_t)(chain > 0 && prng_chance(g, 50) ? 2 + prng_n(g, 2) : prng_chance(g, 25) ? 1 : 0));
	}
	plan_add(P, "knob", "cb_rc", 1, (int64_t)(prng_chance(g, 15) ? (prng_chance(g, 50) ? 1 + (int64_t)prng_n(g, 100) : -1 - (int64_t)prng_n(g, 100)) : 0));
	plan_add(P, "knob", "fill", 1, (int64_t)(prng_chance(g, 30) ? ' ' : prng_chance(g, 30) ? '7' : prng_chance(g, 50) ? 256 : 0));
	/* addresses */
	na = c14 ? 1 + (int)prng_n(g, 2) : (prng_chance(g, 80) ? 1 : 1 + (int)prng_n(g, 3));
	l = plan_add(P, "addr", "0", 0);
	for (i = 0; i < na; i++) {
		int last = (i == na - 1);
		static const int good[] = { 3, 3, 4, 4, 5 };
		static const int bad[] = { 0, 1, 2, 2 };
		int beh = last && !(host && prng_chance(g, 5)) ? good[prng_n(g, 5)] : bad[prng_n(g, 4)];

		pline_tok(l, 2, (int64_t)beh, (int64_t)prng_n(g, 3000));
	}
	/* the response */
	nint = prng_chance(g, 30) ? 1 + (int)prng_n(g, 3) : 0;
	{
		static const int sts[] = { 200, 200, 200, 201, 204, 304, 301, 404, 500, 599, 206 };

		status = prng_chance(g, 70) ? sts[prng_n(g, 11)] : 200 + (int)prng_n(g, 400);
	}
	framing = (int)prng_n(g, 3);
	switch (prng_n(g, 8)) {
	case 0: bodylen = 0; break;
	case 1: bodylen = 1 + prng_n(g, 10); break;
	case 2: bodylen = 4000 + prng_n(g, 200); break;
	case 3: bodylen = prng_chance(g, c14 ? 0 : 15) ? (1u << 20) + prng_n(g, 100000) : 10000 + prng_n(g, 60000); break;
	default: bodylen = prng_n(g, 3000); break;
	}
	if (c14 && bodylen > 6000)
		bodylen = 6000;
	nhdr = prng_chance(g, 15) ? 20 + (int)prng_n(g, 21) : (int)prng_n(g, 8);
	for (i = 0; i < nint; i++) {
		/* interim responses both shorter and longer than the final header block */
		int inh = prng_chance(g, 50) ? (int)prng_n(g, 3) : nhdr + 1 + (int)prng_n(g, 6);
		size_t ipad = prng_chance(g, 40) ? prng_n(g, 300) : 0;

		gen_response(P, g, i, 100 + (prng_chance(g, 70) ? 0 : (int)prng_n(g, 100)), 3, 0, inh, ipad);
	}
	/* boundary placement: pad chosen below, after a trial serialisation */
	gen_response(P, g, nint, status, framing, bodylen, nhdr, 0);
	/* body limit */
	if (c09 || (!host && prng_chance(g, 70))) {
		switch (prng_n(g, 4)) {
		case 0: mrl = bodylen; break;
		case 1: mrl = bodylen + 1 + prng_n(g, 3); break;
		default: mrl = bodylen + prng_n(g, 100000); break;
		}
	} else {
		switch (prng_n(g, 8)) {
		case 0: mrl = 0; break;
		case 1: mrl = 1; break;
		case 2: mrl = bodylen > 2 ? bodylen - 1 - prng_n(g, 2) : 0; break;
		case 3: mrl = bodylen; break;
		case 4: mrl = bodylen + 1 + prng_n(g, 2); break;
		case 5: mrl = prng_n(g, 100); break;
		default: mrl = bodylen + prng_n(g, 100000); break;
		}
	}
	if (prng_chance(g, 3))
		plan_add(P, "knob", "maxrlen", 1, (int64_t)-1 - (int64_t)prng_n(g, 2));	/* SIZE_MAX, SIZE_MAX - 1 */
	else
		plan_add(P, "knob", "maxrlen", 1, (int64_t)mrl);
	plan_add(P, "knob", "place", 1, (int64_t)(prng_chance(g, 35) ? 1 + prng_n(g, 8) : 0));	/* boundary placement: target ends at 4096*k - (place-1) */
	if (host) {
		int nm = 1 + (int)prng_n(g, 3), k;

		l = plan_add(P, "mut", "0", 0);
		for (k = 0; k < nm; k++) {
			static const int kinds[] = { 0, 0, 1, 2, 3, 4, 4, 4, 4, 5, 6, 6, 7, 7, 8, 9, 10, 11, 12, 13, 14, 14 };

			pline_tok(l, 3, (int64_t)kinds[prng_n(g, sizeof(kinds) / sizeof(kinds[0]))], (int64_t)prng_n(g, 100000), (int64_t)prng_n(g, 100000));
		}
	}
	/* schedule: segmentation, windows, tapes */
	segstyle = (int)prng_n(g, 5);
	l = plan_add(P, "seg", "0", 0);
	{
		int ns = segstyle == 0 ? 0 : 1 + (int)prng_n(g, 12), k;

		for (k = 0; k < ns; k++) {
			size_t n;

			switch (segstyle) {
			case 1: n = 1; break;
			case 2: n = 1 + prng_n(g, 8); break;
			case 3: n = 1 + prng_n(g, 5000); break;
			default: n = prng_chance(g, 50) ? 1 + prng_n(g, 4) : 4090 + prng_n(g, 12); break;
			}
			pline_tok(l, 2, (int64_t)n, (int64_t)(prng_chance(g, 60) ? 0 : prng_n(g, 2000)));
		}
	}
	plan_add(P, "knob", "txwin", 1, (int64_t)(prng_chance(g, 30) ? 1 + prng_n(g, 64) : 65536));
	plan_add(P, "knob", "drain", 1, (int64_t)(prng_chance(g, 30) ? prng_n(g, 64) : 65536));
	plan_add(P, "knob", "early", 1, (int64_t)(prng_chance(g, 12)));
	/* end: 0 the server closes after the response, 1 it resets the connection, 2 it keeps the connection open (keep-alive) */
	plan_add(P, "knob", "end", 1, (int64_t)(host ? prng_chance(g, 10) : ((framing == 0 || framing == 1) && prng_chance(g, 25)) ? 2 : 0));
	plan_add(P, "knob", "end_delay_us", 1, (int64_t)(prng_chance(g, 50) ? 0 : prng_n(g, 5000)));
	plan_add(P, "knob", "cancel_after", 1, (prng_chance(g, c09 ? 3 : 8) ? (int64_t)prng_n(g, 12) : (int64_t)-1));
	{
		int pe = prng_chance(g, 40) ? (int)prng_n(g, 20) : 0, pi = prng_chance(g, 40) ? (int)prng_n(g, 12) : 0,
		    ps = prng_chance(g, 50) ? (int)prng_n(g, 40) : 0, k, n;
		const char * which[2] = { "recv", "send" };
		int w;

		for (w = 0; w < 2; w++) {
			l = plan_add(P, "tape", which[w], 0);
			n = (int)prng_n(g, 40);
			for (k = 0; k < n; k++) {
				unsigned x = prng_n(g, 100);

				if (x < (unsigned)pe)
					pline_tok(l, 1, (int64_t)TD_EAGAIN);
				else if (x < (unsigned)(pe + pi))
					pline_tok(l, 1, (int64_t)TD_EINTR);
				else if (x < (unsigned)(pe + pi + ps))
					pline_tok(l, 2, (int64_t)TD_CAP, (int64_t)(prng_chance(g, 40) ? 1 : 1 + prng_n(g, 5000)));
				else
					pline_tok(l, 1, (int64_t)TD_DEFAULT);
			}
		}
		l = plan_add(P, "ptape", "0", 0);
		n = (int)prng_n(g, 20);
		for (k = 0; k < n; k++) {
			unsigned x = prng_n(g, 100);

			if (x < 5)
				pline_tok(l, 1, (int64_t)1);
			else if (x < 12)
				pline_tok(l, 2, (int64_t)3, (int64_t)prng_n(g, 4));
			else
				pline_tok(l, 1, (int64_t)0);
		}
	}
}

/* ---------- plan execution ---------- */
void
engine_zygote_init(void)
{
}

static void
release_by_observation(void)
{

	if (req_live && hcookie != NULL && simalloc_is_live(hcookie)) {
		cancelled = 1;
		LIB_ENTER();
		http_request_cancel(hcookie);
		LIB_LEAVE();
	}
	req_live = 0;
}

void
engine_run(const struct plan * P)
{
	const struct pline * l;
	int i, nresp = 0, ishead, f0, k, lim;
	size_t hb, hb_final = 0, hb_max_interim = 0, place;
	struct pline * final = NULL;
	char addr[64];
	size_t nl, by;

	PLAN = P;
	snprintf(R->crash_prop, sizeof(R->crash_prop), "C08");
	hostile = (int)plan_knob(P, "hostile", 0);
	maxrlen = (size_t)plan_knob(P, "maxrlen", 0);
	vk_fd_base = (int)plan_knob(P, "fd_base", 3);
	if (vk_fd_base < 0)
		vk_fd_base = 0;	/* (a daemon with descriptors 0-2 closed gets 0 from socket()) */
	if (vk_fd_base > 200)
		vk_fd_base = 200;
	simalloc_fill = (int)plan_knob(P, "fill", -1);
	simalloc_fill_seed = 4242;
	cancel_after = (int)plan_knob(P, "cancel_after", -1);
	vk_block_oracle = "C08.live";
	vk_bare_err = (int)plan_knob(P, "bare_err", 0) == 1;
	cb_rc = (int)plan_knob(P, "cb_rc", 0);
	use_tls = (int)plan_knob(P, "tls", 0) == 1;
	tls_mix = (int)plan_knob(P, "tls", 0) >= 2 ? (int)plan_knob(P, "tls", 0) : 0;
	chain_left = (int)plan_knob(P, "chain", 0);
	if (chain_left < 0 || chain_left > 3)
		chain_left = 0;
	if (plan_knob(P, "syslog", 0) == 1) {
		/* an application may route the library's warnings to syslog (which is stubbed out here) */
		LIB_ENTER();
		warnp_syslog(1);
		LIB_LEAVE();
	}
	vk_on_socket = on_socket;
	vk_on_connect = on_connect;
	vk_on_deadlock = on_deadlock;
	build_request(P);
	ishead = !strcmp(HREQ.method, "HEAD");

	/* the server's byte stream */
	for (i = 0; i < P->n; i++)
		if (!strcmp(P->l[i].kind, "resp"))
			nresp++;
	place = (size_t)plan_knob(P, "place", 0);
	for (k = 0; k < 2; k++) {
		int seen = 0;

		RESP.n = 0;
		nchunk_off = 0;
		boundary_target = (size_t)-1;
		hb_max_interim = 0;
		for (i = 0; i < P->n; i++) {
			struct pline * rl = &P->l[i];

			if (strcmp(rl->kind, "resp") || rl->nargs < 3)
				continue;
			seen++;
			if (seen == nresp)
				final = rl;
			build_response(P, rl, seen == nresp, ishead, &hb);
			if (seen == nresp)
				hb_final = hb;
			else if (hb > hb_max_interim)
				hb_max_interim = hb;
			if (seen < nresp) {
				if (rl->a[0] >= 200)
					break;	/* a non-1xx "interim" would be the final response */
			}
		}
		/* second pass: pad the final response so that the target sits against the reader-buffer boundary */
		if (k == 0 && place > 0 && final != NULL && final->nargs >= 9) {
			size_t target = (boundary_target != (size_t)-1) ? boundary_target : RESP.n - (EX.bodylen ? EX.bodylen : 0);
			size_t want = ((target + 9) / 4096 + 1) * 4096 - (place - 1);

			if (want > target + 9) {
				final->a[8] = (int64_t)(want - target - 9);
				R->cnt[N_BOUNDARY]++;
				continue;
			}
		}
		break;
	}
	EX.known = (nresp > 0 && final != NULL && final->a[0] >= 200);
	for (i = 0; i < P->n; i++)
		if (!strcmp(P->l[i].kind, "resp") && P->l[i].nargs >= 1 && &P->l[i] != final && P->l[i].a[0] >= 200)
			EX.known = 0;	/* (plans edited by hand or by the minimiser) */
	if (nresp > 1) {
		R->cnt[N_INTERIM]++;
		if (hb_max_interim > hb_final)
			R->cnt[N_INTERIM_LONGER]++;
	}
	if (hb_final > 4096)
		R->cnt[N_HDR_OVER_4K]++;
	if (final != NULL) {
		switch (EX.body == NULL ? 3 : (int)(final->a[2] & 3)) {
		case 0: R->cnt[N_CL]++; break;
		case 1: R->cnt[N_CHUNKED]++; break;
		case 2: R->cnt[N_CLOSE]++; break;
		default: R->cnt[N_NOBODY]++; break;
		}
		if (EX.bodylen == maxrlen && EX.bodylen > 0)
			R->cnt[N_BODY_AT_LIMIT]++;
		if (EX.bodylen > maxrlen)
			R->cnt[N_BODY_OVER_LIMIT]++;
	}
	if ((l = plan_find(P, "mut", "0")) != NULL && l->ntok > 0)
		apply_mutations(l);
	if (plan_knob(P, "end", 0) == 1)
		EX.known = 0;		/* a reset may cut a close-framed body short */
	if (EX.known)
		R->crash_prop[0] = 0;	/* a crash on a well-formed response contradicts C09 as well as C08 */
	if (EX.known)
		R->cnt[N_WELLFORMED]++;
	else
		R->cnt[N_HOSTILE]++;
	R->cnt[N_BYTES] = RESP.n;

	/* addresses */
	l = plan_find(P, "addr", "0");
	naddr = l ? l->ntok : 0;
	if (naddr > 6)
		naddr = 6;
	all_addr_fail = 1;
	for (i = 0; i < naddr; i++) {
		int b = l->tok[i].n > 0 ? (int)(l->tok[i].v[0] < 0 ? -l->tok[i].v[0] : l->tok[i].v[0]) % 6 : 4;

		addr_beh[i] = b;
		addr_delay[i] = l->tok[i].n > 1 && l->tok[i].v[1] > 0 ? (uint64_t)l->tok[i].v[1] : 0;
		if (b >= 3)
			all_addr_fail = 0;
		snprintf(addr, sizeof(addr), "127.0.0.%d:%d", i + 1, 2000 + i);
		sas[i] = sock_resolve_one(addr, 0);
	}
	sas[naddr] = NULL;
	if (all_addr_fail)
		R->cnt[N_ALL_ADDR_FAILED]++;

	/* step 0: issue the request */
	simalloc_step(0);
	f0 = simalloc_failed;
	R->cnt[N_REQ]++;
	TR(0x01, maxrlen, RESP.n, "http_request(%s %s, %zu headers, %zu body bytes, maxrlen=%zu); server stream %zu bytes, %s", HREQ.method, HREQ.path,
	    HREQ.nheaders, HREQ.bodylen, maxrlen, RESP.n, EX.known ? "well formed" : "hostile");
	LIB_ENTER();
	hcookie = issue_request();
	LIB_LEAVE();
	if (hcookie == NULL) {
		if (!AF_SINCE(f0))
			sim_viol("C08.once", "request-null", "http_request returned NULL without an allocation failure");
		if (!sim_af_persist) {
			LIB_ENTER();
			hcookie = issue_request();
			LIB_LEAVE();
			if (hcookie == NULL)
				sim_viol("C14.retry", "http", "http_request failed again with a healthy allocator");
		}
	}
	req_live = (hcookie != NULL);

	/* step 1..: run the loop */
	vk_polltape = plan_find(P, "ptape", "0");
	vk_polltape_pos = 0;
	lim = 4000;
	for (k = 0; k < lim && req_live; k++) {
		simalloc_step(1 + (k < 200 ? k : 200));
		if (cancel_after >= 0 && k == cancel_after) {
			cancelled = 1;
			R->cnt[N_CANCEL]++;
			TR(0x02, k, 0, "http_request_cancel after %d loop iterations", k);
			LIB_ENTER();
			http_request_cancel(hcookie);
			LIB_LEAVE();
			req_live = 0;
			break;
		}
		vk_pump();
		f0 = simalloc_failed;
		R->cnt[N_RUNS]++;
		LIB_ENTER();
		i = events_run();
		LIB_LEAVE();
		R->steps++;
		if (i != 0 && cb_rc_returned && !req_live) {
			/* the callback's own non-zero result comes back from events_run unchanged: the request is over */
			if (i != cb_rc && !AF_SINCE(f0) && simalloc_failed == 0)
				sim_viol("C08.live", "loop-rc", "events_run returned %d, the callback had returned %d", i, cb_rc);
			break;
		}
		if (i != 0) {
			R->cnt[N_LOOP_FAIL]++;
			loop_failed = 1;
			if (!AF_SINCE(f0) && simalloc_failed == 0)
				sim_viol("C08.live", "loop-rc", "events_run returned %d although no callback returned non-zero and no allocation failed", i);
			break;
		}
	}
	if (req_live && !loop_failed && simalloc_failed == 0 && EX.known && !all_addr_fail)
		sim_viol("C09.status", "never", "well-formed response (status %d, %zu body bytes) fully delivered, but the callback never came", EX.status, EX.bodylen);
	if (req_live && !loop_failed && simalloc_failed == 0)
		sim_viol("C08.live", "never-finished", "the request did not finish within %d loop iterations although the server sent everything and closed", lim);
	/* the loop failed (allocation failure): the library may or may not have destroyed the request */
	release_by_observation();
	/* a cancelled or finished request must stay silent */
	for (k = 0; k < 3; k++) {
		struct vsock * dummy = NULL;

		(void)dummy;
	}
	if (ncb < expect_cb && !cancelled && !loop_failed && simalloc_failed == 0)
		sim_viol("C08.once", "never", "the request ended without a callback and without being cancelled");
	/* C09: the bytes the server received */
	if (server != NULL && EX.known && simalloc_failed == 0) {
		size_t n = server->txlen;

		if (n > REQ.n || memcmp(server->tx, REQ.p, n) != 0)
			sim_viol("C09.request-bytes", "mismatch", "the bytes sent to the server differ from method, path, HTTP/1.1, headers, blank line, body (first %zu bytes compared)", n);
		if (got_resp && !answered_early && !cancelled && n != REQ.n)
			sim_viol("C09.request-bytes", "incomplete", "the server received %zu of %zu request bytes before answering", n, REQ.n);
	}
	/* simulated exit: nothing of the library's may be left */
	for (i = 0; i < naddr; i++)
		sock_addr_free(sas[i]);
	simalloc_run_atexit();
	nl = simalloc_lib_live(&by);
	if (nl != 0) {
		if (sim_verbose)
			simalloc_dump_live();
		sim_viol(sim_c14 ? "C14.leak" : "C08.leak", "leak", "%zu library blocks (%zu bytes) still allocated after the request ended and the exit handlers ran", nl, by);
	}
	{
		int nopen = 0, fdopen = -1;

		for (i = 0; i < VK_MAXSOCK; i++)
			if (vk_socks[i].used && !vk_socks[i].closed_by_app) {
				nopen++;
				fdopen = vk_socks[i].fd;
			}
		if (tls_stub_live != 0)
			sim_viol(sim_c14 ? "C14.leak" : "C08.leak", "tls-leak", "%d TLS context(s) still open after the request ended", tls_stub_live);
		if (nopen != 0)
			sim_viol(sim_c14 ? "C14.leak" : "C08.leak", "fd-leak", "%d socket(s) opened by the request (e.g. fd %d) still open after it ended", nopen, fdopen);
	}
	R->sim_ns = vk_now_ns - VK_T0_NS;
	R->cnt[N_F_RECV_SHORT] = vk_stats.recv_short;
	R->cnt[N_F_RECV_EAGAIN] = vk_stats.recv_eagain;
	R->cnt[N_F_RECV_EINTR] = vk_stats.recv_eintr;
	R->cnt[N_F_SEND_SHORT] = vk_stats.send_short;
	R->cnt[N_F_SEND_EAGAIN] = vk_stats.send_eagain;
	R->cnt[N_F_SEND_EINTR] = vk_stats.send_eintr;
	R->cnt[N_F_SPUR] = vk_stats.poll_spurious;
	R->cnt[N_F_POLL_EINTR] = vk_stats.poll_eintr;
	R->cnt[N_F_ALLOC] = (uint64_t)simalloc_failed;
	R->cnt[N_POLLS] = vk_stats.polls;
	R->nontrivial = (got_resp || R->cnt[N_MUT] > 0) && vk_stats.polls >= 3 && vk_stats.recv_calls >= 2;
}
