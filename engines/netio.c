/*
 * netio.c -- engine for C06 (network_read/write/connect/accept) and C07
 * (netbuf reader/writer), plus their part of C14.
 *
 * Real code: network_*.c netbuf_*.c sock.c + the whole event loop.
 * Stubs: the kernel's sockets (sim/vkernel.c), peers, clock, allocator policy.
 */
#define _GNU_SOURCE
#include <sys/mman.h>
#ifndef MAP_ANONYMOUS
#define MAP_ANONYMOUS 0x20
#endif
#ifndef MAP_NORESERVE
#define MAP_NORESERVE 0x4000
#endif
#include <sys/time.h>
#include <sys/socket.h>

#include <errno.h>
#include <poll.h>
#include <stdint.h>
#include <stdio.h>
#include <stdlib.h>
#include <string.h>

#include "events.h"
#include "netbuf.h"
#include "network.h"
#include "network_ssl.h"
#include "sock.h"

#include "sim.h"
#include "simalloc.h"
#include "vkernel.h"
#include "tls_stub.h"

const char * engine_name = "netio";
const char * const engine_props[] = { "C06", "C07", "C14", NULL };

enum {
	N_RD_REQ, N_RD_DONE, N_RD_EOF, N_RD_ERR, N_WR_REQ, N_WR_DONE, N_WR_ERR, N_CANCEL, N_CHAIN,
	N_CONN_REQ, N_CONN_OK, N_CONN_FAIL, N_CONN_TIMEO, N_CONN_ASYNCFAIL, N_CONN_CANCEL, N_ACC_REQ, N_ACC_OK,
	N_ACC_ERR, N_NBR_WAIT, N_NBR_OK, N_NBR_EOF, N_NBR_ERR, N_NBR_IMM, N_NBR_GROW, N_NBR_COMPACT, N_NBR_CANCEL,
	N_NBR_CANCEL_INFLIGHT, N_NBW_WRITE, N_NBW_BYTES, N_NBW_FAILCB, N_NBW_QUEUED_BEHIND, N_NBW_ZERO, N_NBW_FREE_INFLIGHT,
	N_F_RECV_SHORT, N_F_RECV_EAGAIN, N_F_RECV_EINTR, N_F_RECV_ERR, N_F_SEND_SHORT, N_F_SEND_EAGAIN, N_F_SEND_EINTR,
	N_F_SEND_ERR, N_F_POLL_EINTR, N_F_POLL_SPUR, N_F_ACCEPT_SOFT, N_F_ALLOC, N_POLLS, N_BLOCKS, N_RUNS, N_REG_FAIL,
	N_RW_BOTH, N_OVERLAP, N_MANY, N_BINDFAIL, N_FREE_IN_CB, N_NBR_CONSUME_WAITING, N_NBR_HUGE_REFUSED, N_TLS, N_BULK, N_TLS_EARLIER, N_F_BARE_ERR,
	N_F_BLOCKING_CONNECT, N_F_GSO, N_F_CLOSE, N_NBW_NOCB
};
const char * const engine_counters[] = {
	"read_requests", "read_completed", "read_eof", "read_error", "write_requests", "write_completed", "write_error",
	"probe_cancelled", "probe_chained_from_callback", "connect_requests", "connect_succeeded", "connect_all_failed",
	"probe_connect_address_timed_out", "probe_connect_address_failed_async", "probe_connect_cancelled",
	"accept_requests", "accept_succeeded", "accept_hard_error", "reader_waits", "reader_wait_ok", "reader_wait_eof",
	"reader_wait_error", "probe_reader_wait_satisfied_from_buffer", "probe_reader_buffer_grew",
	"probe_reader_compaction", "probe_reader_wait_cancelled", "probe_reader_cancel_with_bytes_in_flight",
	"writer_writes", "writer_bytes", "probe_writer_fail_callback", "probe_writer_queued_behind_inflight",
	"probe_writer_zero_length", "probe_writer_freed_with_write_in_flight",
	"fault_recv_short", "fault_recv_eagain", "fault_recv_eintr", "fault_recv_hard_error", "fault_send_short",
	"fault_send_eagain", "fault_send_eintr", "fault_send_hard_error", "fault_poll_eintr", "fault_poll_spurious",
	"fault_accept_soft_error", "fault_alloc_failed", "polls", "poll_blocked", "events_run_calls", "probe_request_failed_alloc",
	"probe_read_and_write_outstanding", "probe_overlapping_request_refused", "probe_more_than_16_requests_outstanding", "fault_bind_failed", "probe_object_freed_inside_its_callback",
	"probe_reader_consume_while_waiting", "probe_reader_unbufferable_wait_refused", "probe_netbuf_over_tls_stub", "probe_write_over_2GiB",
	"probe_plain_connection_after_tls_was_used", "fault_poll_reported_error_alone", "note_connect_on_blocking_descriptor",
	"fault_getsockopt_failed", "fault_close_failed", "probe_writer_without_failure_callback", NULL
};

#define AF_SINCE(before) (simalloc_failed != (before))
#define MAXS 40

/* ---------- per-socket state ---------- */
struct req {
	int live, cancelled, done, sock, dir, id;
	int hard;		/* a recv/send of this request failed with a hard error */
	void * cookie;
	uint8_t * buf;
	size_t buflen, min, start_off;
	int chain_n;
	size_t chain_buflen, chain_min;
	int eof_at_start, err_at_start;
	int af_at_start;
	uint64_t nrecv_at_start;
	int bulk;		/* buffer too large to compare byte by byte (an untouched mapping) */
};
#define MAXREQ 512
static struct req reqs[MAXREQ + 1];
static int nreq;

struct nbr {
	struct netbuf_read * R;
	int waiting;		/* a wait is outstanding */
	size_t k;		/* its length */
	size_t consumed;	/* stream offset of the first unconsumed byte (model) */
	size_t seen_end;	/* stream offset of the end of the window at the last successful look */
	size_t consume_j;
	size_t consumed_in_wait;	/* bytes consumed since the outstanding wait was issued */
	int chain_n;
	size_t chain_k;
	int finished;		/* EOF or error was reported: stream equality no longer asserted */
	int free_in_cb;		/* the next wait callback frees the reader (as http.c does) */
	int ncb_for_wait;
	/* known-finding shape: bytes handed out by the kernel to a wait that was then cancelled */
	size_t lost_at, lost_n;
	int af_at_wait;
	int eof_at_wait, err_at_wait;
	size_t lastbuf_size, lastoff, base_at_block;	/* where the last recv was asked to store, for probes */
	void * lastblock;
};
struct nbw {
	struct netbuf_write * W;
	uint8_t * truth;	/* concatenation of all successful writes */
	size_t tlen, tcap;
	int failed_cb;		/* fail callback invocations */
	int nocb;		/* created without a failure callback */
	int dead;		/* writer unusable after an allocation failure (only freed) */
	int wrote_after_fail;
	int send_error_seen;	/* the transport has failed under this writer */
	int free_in_failcb;
	uint8_t * alt;		/* second candidate stream: without the bytes of a write that reported failure (OOM) */
	size_t alen;
	int forked;
	uint64_t wctr;
};
/* the writer has seen its transport fail: told through the failure callback, or (without one) observed at the send */
#define WFAILED(w) ((w)->failed_cb > 0 || ((w)->nocb && (w)->send_error_seen))
struct sockst {
	struct vsock * vs;
	int kind;		/* 0 stream, 1 listener */
	struct req * rd, * wr;
	struct nbr nbr;
	struct nbw nbw;
	/* accept */
	void * acc_cookie;
	int acc_live, acc_ncb, acc_last_fd, acc_af, acc_rearm;
	uint64_t rxseed;
	struct network_ssl_ctx * tls;
	int no_more_writes;	/* a bulk write was issued: the byte log of this socket is no longer complete */
};
static struct sockst ss[MAXS];
static int nss;
static int in_cb;
static int cur_step_failed0;

static uint8_t
stream_byte(uint64_t seed, uint64_t off)
{
	uint64_t x = seed * 0x9e3779b97f4a7c15ULL + off * 0xbf58476d1ce4e5b9ULL;

	x ^= x >> 29;
	x *= 0x94d049bb133111ebULL;
	x ^= x >> 32;
	return ((uint8_t)x);
}

static struct sockst *
ss_of(struct vsock * vs)
{
	int i;

	for (i = 0; i < nss; i++)
		if (ss[i].vs == vs)
			return (&ss[i]);
	return (NULL);
}

/* ---------- raw read / write ---------- */
static int rd_callback(void *, ssize_t);
static int wr_callback(void *, ssize_t);

static void
issue_read(int si, size_t buflen, size_t min, int chain_n, size_t cb, size_t cm)
{
	struct sockst * S = &ss[si];
	struct req * q;
	int f0, attempt;

	if (S->vs == NULL || S->kind != 0 || S->nbr.R != NULL || nreq >= MAXREQ)
		return;
	if (buflen < 1)
		buflen = 1;
	if (min > buflen)
		min = buflen;
	if (S->rd != NULL) {
		/* a second request while one is pending must be refused and must leave the first one alone */
		static uint8_t scratch[64];
		void * c;

		f0 = simalloc_failed;
		LIB_ENTER();
		c = network_read(S->vs->fd, scratch, sizeof(scratch), 1, rd_callback, &reqs[MAXREQ - 1]);
		LIB_LEAVE();
		R->cnt[N_OVERLAP]++;
		TR(0x19, si, c != NULL, "overlapping network_read(sock %d) while id=%d is pending -> %s", si, S->rd->id, c ? "accepted" : "refused");
		if (c != NULL)
			sim_viol("C06.rd.once", "overlap-accepted", "a second read request on a descriptor with a read already pending was accepted");
		return;
	}
	q = &reqs[nreq];
	memset(q, 0, sizeof(*q));
	q->id = nreq++;
	q->sock = si;
	q->dir = 0;
	q->buf = malloc(buflen);
	memset(q->buf, 0xEE, buflen);
	q->buflen = buflen;
	q->min = min;
	q->chain_n = chain_n;
	q->chain_buflen = cb;
	q->chain_min = cm;
	for (attempt = 0; attempt < 2; attempt++) {
		q->start_off = S->vs->rxpos;
		q->eof_at_start = S->vs->recv_eof_seen = 0;
		q->err_at_start = S->vs->recv_err_seen = 0;
		q->af_at_start = simalloc_failed;
		f0 = simalloc_failed;
		LIB_ENTER();
		q->cookie = network_read(S->vs->fd, q->buf, buflen, min, rd_callback, q);
		LIB_LEAVE();
		if (q->cookie != NULL)
			break;
		if (!AF_SINCE(f0))
			sim_viol("C06.rd.err", "read-null", "network_read returned NULL without an allocation failure");
		R->cnt[N_REG_FAIL]++;
		TR(0x11, si, 0, "network_read(sock %d) -> NULL (allocation failed)", si);
		if (sim_af_persist) {
			free(q->buf);
			return;
		}
		if (attempt == 1)
			sim_viol("C14.retry", "read", "network_read failed again with a healthy allocator");
	}
	q->live = 1;
	S->rd = q;
	R->cnt[N_RD_REQ]++;
	{
		int k, n = 0;

		for (k = 0; k < nss; k++)
			n += (ss[k].rd != NULL) + (ss[k].wr != NULL);
		if (n > 16)
			R->cnt[N_MANY]++;
	}
	if (S->wr != NULL)
		R->cnt[N_RW_BOTH]++;
	TR(0x10, si, buflen * 65536 + min, "network_read(sock %d, buflen=%zu, min=%zu) id=%d%s", si, buflen, min, q->id, in_cb ? " [from callback]" : "");
}

static void
issue_write(int si, size_t buflen, size_t min, int chain_n, size_t cb, size_t cm)
{
	struct sockst * S = &ss[si];
	struct req * q;
	size_t i;
	int f0, attempt;

	if (S->vs == NULL || S->kind != 0 || S->nbw.W != NULL || S->no_more_writes || nreq >= MAXREQ)
		return;
	if (buflen < 1)
		buflen = 1;
	if (min > buflen)
		min = buflen;
	if (S->wr != NULL) {
		static const uint8_t scratch[64] = { 0 };
		void * c;

		f0 = simalloc_failed;
		LIB_ENTER();
		c = network_write(S->vs->fd, scratch, sizeof(scratch), 1, wr_callback, &reqs[MAXREQ - 1]);
		LIB_LEAVE();
		R->cnt[N_OVERLAP]++;
		TR(0x19, si, c != NULL, "overlapping network_write(sock %d) while id=%d is pending -> %s", si, S->wr->id, c ? "accepted" : "refused");
		if (c != NULL)
			sim_viol("C06.wr.once", "overlap-accepted", "a second write request on a descriptor with a write already pending was accepted");
		return;
	}
	q = &reqs[nreq];
	memset(q, 0, sizeof(*q));
	q->id = nreq++;
	q->sock = si;
	q->dir = 1;
	q->buf = malloc(buflen);
	for (i = 0; i < buflen; i++)
		q->buf[i] = stream_byte(0x77 + (uint64_t)q->id, i);
	q->buflen = buflen;
	q->min = min;
	q->chain_n = chain_n;
	q->chain_buflen = cb;
	q->chain_min = cm;
	for (attempt = 0; attempt < 2; attempt++) {
		q->start_off = S->vs->txlen;
		S->vs->send_err_seen = 0;
		f0 = simalloc_failed;
		q->af_at_start = simalloc_failed;
		LIB_ENTER();
		q->cookie = network_write(S->vs->fd, q->buf, buflen, min, wr_callback, q);
		LIB_LEAVE();
		if (q->cookie != NULL)
			break;
		if (!AF_SINCE(f0))
			sim_viol("C06.wr.err", "write-null", "network_write returned NULL without an allocation failure");
		R->cnt[N_REG_FAIL]++;
		if (sim_af_persist) {
			free(q->buf);
			return;
		}
		if (attempt == 1)
			sim_viol("C14.retry", "write", "network_write failed again with a healthy allocator");
	}
	q->live = 1;
	S->wr = q;
	R->cnt[N_WR_REQ]++;
	if (S->rd != NULL)
		R->cnt[N_RW_BOTH]++;
	TR(0x12, si, buflen * 65536 + min, "network_write(sock %d, buflen=%zu, min=%zu) id=%d%s", si, buflen, min, q->id, in_cb ? " [from callback]" : "");
}

/*
 * A write larger than 2 GiB: the buffer is an untouched anonymous mapping (all zero pages, no memory used), the
 * simulated kernel accounts for the bytes by address instead of logging them.
 */
static void
issue_bulk_write(int si, int sizeclass, int minmode)
{
	static const size_t sizes[] = { 0x7fffffffULL, 0x80000000ULL, 0x80000005ULL, 0xc0000000ULL, 0xffffffffULL, 0x100000007ULL, 0x180000000ULL };
	struct sockst * S = &ss[si];
	struct req * q;
	size_t buflen = sizes[sizeclass % 7], min;
	int f0;

	if (S->vs == NULL || S->kind != 0 || S->nbw.W != NULL || S->wr != NULL || S->no_more_writes || nreq >= MAXREQ)
		return;
	min = minmode == 0 ? buflen : minmode == 1 ? buflen / 2 + 1 : 1;
	q = &reqs[nreq];
	memset(q, 0, sizeof(*q));
	q->buf = mmap(NULL, buflen, PROT_READ, MAP_PRIVATE | MAP_ANONYMOUS | MAP_NORESERVE, -1, 0);
	if (q->buf == MAP_FAILED)
		return;		/* (address space exhausted: nothing to test) */
	q->id = nreq++;
	q->sock = si;
	q->dir = 1;
	q->bulk = 1;
	q->buflen = buflen;
	q->min = min;
	q->start_off = S->vs->txlen;
	S->vs->send_err_seen = 0;
	S->vs->bulk_base = q->buf;
	S->vs->bulk_len = buflen;
	S->vs->bulk_sent = 0;
	S->vs->bulk_misordered = 0;
	S->vs->txwin = SIZE_MAX / 2;
	S->no_more_writes = 1;
	f0 = simalloc_failed;
	q->af_at_start = simalloc_failed;
	LIB_ENTER();
	q->cookie = network_write(S->vs->fd, q->buf, buflen, min, wr_callback, q);
	LIB_LEAVE();
	if (q->cookie == NULL) {
		if (!AF_SINCE(f0))
			sim_viol("C06.wr.err", "write-null", "network_write returned NULL without an allocation failure");
		S->vs->bulk_len = 0;
		munmap(q->buf, buflen);
		return;
	}
	q->live = 1;
	S->wr = q;
	R->cnt[N_WR_REQ]++;
	R->cnt[N_BULK]++;
	TR(0x1A, si, minmode, "network_write(sock %d, buflen=%zu, min=%zu) id=%d [bulk]", si, buflen, min, q->id);
}

static int
rd_callback(void * cookie, ssize_t n)
{
	struct req * q = cookie;
	struct sockst * S;
	size_t i;
	CB_ENTER();

	if (q < reqs || q >= reqs + nreq)
		sim_viol("C06.rd.once", "foreign", "read callback with a foreign cookie");
	S = &ss[q->sock];
	NOTE("READ CALLBACK id=%d n=%zd", q->id, n);
	if (q->cancelled)
		sim_viol("C06.cancel.callback", "rd", "read request id=%d called back after it was cancelled", q->id);
	if (!q->live || q->done)
		sim_viol("C06.rd.once", "twice", "read request id=%d called back more than once", q->id);
	q->done = 1;
	q->live = 0;
	S->rd = NULL;
	sim_trh(0xC1, (uint64_t)q->id, (uint64_t)n);
	if (n >= 0 && q->hard)
		sim_viol("C06.rd.err", "swallowed", "read id=%d reported %zd although a recv of this request had failed hard", q->id, n);
	if (n > 0) {
		R->cnt[N_RD_DONE]++;
		if ((size_t)n < q->min || (size_t)n > q->buflen || (q->min == 0 && n < 1))
			sim_viol("C06.rd.range", "range", "read id=%d reported %zd bytes, outside [%zu, %zu]", q->id, n, q->min, q->buflen);
		for (i = 0; i < (size_t)n; i++)
			if (q->buf[i] != S->vs->rx[q->start_off + i])
				sim_viol("C06.rd.bytes", "bytes", "read id=%d: buffer byte %zu differs from the peer's stream at offset %zu", q->id, i, q->start_off + i);
		if (S->vs->rxpos != q->start_off + (size_t)n)
			sim_viol("C06.rd.swallow", "swallow", "read id=%d reported %zd bytes but the kernel handed out %zu since the request started", q->id, n, S->vs->rxpos - q->start_off);
	} else if (n == 0) {
		R->cnt[N_RD_EOF]++;
		if (!S->vs->recv_eof_seen)
			sim_viol("C06.rd.eof", "eof", "read id=%d reported end-of-stream but no recv returned 0", q->id);
	} else if (n == -1) {
		R->cnt[N_RD_ERR]++;
		if (!S->vs->recv_err_seen && !AF_SINCE(q->af_at_start))
			sim_viol("C06.rd.err", "err", "read id=%d reported an error but no recv failed hard and no allocation failed", q->id);
	} else
		sim_viol("C06.rd.range", "negative", "read id=%d reported %zd", q->id, n);
	if (q->chain_n > 0 && n > 0) {
		R->cnt[N_CHAIN]++;
		in_cb = 1;
		issue_read(q->sock, q->chain_buflen, q->chain_min, q->chain_n - 1, q->chain_buflen, q->chain_min);
		in_cb = 0;
	}
	CB_LEAVE();
	return (0);
}

static int
wr_callback(void * cookie, ssize_t n)
{
	struct req * q = cookie;
	struct sockst * S;
	CB_ENTER();

	if (q < reqs || q >= reqs + nreq)
		sim_viol("C06.wr.once", "foreign", "write callback with a foreign cookie");
	S = &ss[q->sock];
	NOTE("WRITE CALLBACK id=%d n=%zd", q->id, n);
	if (q->cancelled)
		sim_viol("C06.cancel.callback", "wr", "write request id=%d called back after it was cancelled", q->id);
	if (!q->live || q->done)
		sim_viol("C06.wr.once", "twice", "write request id=%d called back more than once", q->id);
	q->done = 1;
	q->live = 0;
	S->wr = NULL;
	sim_trh(0xC2, (uint64_t)q->id, (uint64_t)n);
	if (n >= 0 && q->hard)
		sim_viol("C06.wr.err", "swallowed", "write id=%d reported %zd although a send of this request had failed hard", q->id, n);
	if (n >= 0) {
		R->cnt[N_WR_DONE]++;
		if ((size_t)n < q->min || (size_t)n > q->buflen)
			sim_viol("C06.wr.range", "range", "write id=%d reported %zd bytes, outside [%zu, %zu]", q->id, n, q->min, q->buflen);
		if (S->vs->txlen != q->start_off + (size_t)n)
			sim_viol("C06.wr.bytes", "count", "write id=%d reported %zd bytes but the kernel accepted %zu since the request started", q->id, n, S->vs->txlen - q->start_off);
		if (q->bulk) {
			if (S->vs->bulk_misordered)
				sim_viol("C06.wr.bytes", "bulk-order", "write id=%d: the kernel was handed bytes out of order (or beyond the buffer)", q->id);
		} else if (memcmp(S->vs->tx + q->start_off, q->buf, (size_t)n) != 0)
			sim_viol("C06.wr.bytes", "bytes", "write id=%d: the bytes the kernel accepted differ from the first %zd bytes of the buffer", q->id, n);
	} else if (n == -1) {
		R->cnt[N_WR_ERR]++;
		if (!S->vs->send_err_seen && !AF_SINCE(q->af_at_start))
			sim_viol("C06.wr.err", "err", "write id=%d reported an error but no send failed hard and no allocation failed", q->id);
	} else
		sim_viol("C06.wr.range", "negative", "write id=%d reported %zd", q->id, n);
	if (S->vs->sigpipe)
		sim_viol("C06.wr.sigpipe", "sigpipe", "send without MSG_NOSIGNAL on a connection whose peer is gone (the process would die of SIGPIPE)");
	if (q->chain_n > 0 && n > 0) {
		R->cnt[N_CHAIN]++;
		in_cb = 1;
		issue_write(q->sock, q->chain_buflen, q->chain_min, q->chain_n - 1, q->chain_buflen, q->chain_min);
		in_cb = 0;
	}
	CB_LEAVE();
	return (0);
}

static void
cancel_req(int si, int dir)
{
	struct sockst * S = &ss[si];
	struct req * q = dir ? S->wr : S->rd;

	if (q == NULL || !q->live)
		return;
	LIB_ENTER();
	if (dir)
		network_write_cancel(q->cookie);
	else
		network_read_cancel(q->cookie);
	LIB_LEAVE();
	q->live = 0;
	q->cancelled = 1;
	if (dir)
		S->wr = NULL;
	else
		S->rd = NULL;
	R->cnt[N_CANCEL]++;
	TR(0x13, si, dir, "cancel %s request id=%d on sock %d", dir ? "write" : "read", q->id, si);
}

/* ---------- kernel hooks: I/O only while a request is outstanding ---------- */
static void
on_recv(struct vsock * vs, long result, int err)
{
	struct sockst * S = ss_of(vs);

	(void)err;
	if (S == NULL)
		return;
	if (S->nbr.R != NULL) {
		struct nbr * N = &S->nbr;
		size_t bsize = 0;
		void * blk;

		if (!N->waiting)
			sim_viol("C07.rd.io-without-wait", "recv", "recv on the reader's socket while no wait is outstanding");
		/* probes, inferred from where the reader asks the kernel to put the bytes (no hook in the library) */
		blk = simalloc_block_of(vk_last_recv_buf, &bsize);
		if (blk != NULL) {
			size_t off = (size_t)((const uint8_t *)vk_last_recv_buf - (const uint8_t *)blk);

			if (blk == N->lastblock && off < N->lastoff && N->consumed > N->base_at_block)
				R->cnt[N_NBR_COMPACT]++;	/* data was moved to the front of the same buffer */
			if (blk != N->lastblock && N->lastblock != NULL && bsize > N->lastbuf_size)
				R->cnt[N_NBR_GROW]++;
			if (blk != N->lastblock)
				N->base_at_block = N->consumed;
			N->lastblock = blk;
			N->lastbuf_size = bsize;
			N->lastoff = off;
			if (off + vk_last_recv_len > bsize)
				sim_viol("C07.rd.window", "recv-beyond-buffer", "the reader asked recv for %zu bytes at offset %zu of its %zu-byte buffer", vk_last_recv_len, off, bsize);
		}
		return;
	}
	if (S->rd == NULL || !S->rd->live)
		sim_viol("C06.cancel.io", "recv", "recv on sock %d although no read request is outstanding (after completion or cancel)", (int)(S - ss));
	else {
		if (S->rd->hard)
			sim_viol("C06.rd.err", "io-after-error", "read id=%d: recv again after a recv of this request had failed hard", S->rd->id);
		if (result == -1 && err != EAGAIN && err != EWOULDBLOCK && err != EINTR)
			S->rd->hard = 1;
	}
}

static void
on_send(struct vsock * vs, const void * buf, long result, int err)
{
	struct sockst * S = ss_of(vs);

	(void)buf;
	(void)err;
	(void)result;
	if (S == NULL)
		return;
	if (S->nbw.W != NULL) {
		if (S->nbw.failed_cb > 0)
			sim_viol("C07.wr.send-after-fail", "send", "send on the writer's socket after the failure callback fired");
		if (S->nbw.send_error_seen)
			sim_viol("C07.wr.send-after-fail", "send-after-error", "send on the writer's socket after an earlier send had failed hard");
		if (result == -1 && err != EAGAIN && err != EINTR)
			S->nbw.send_error_seen = 1;
		return;
	}
	if (S->wr == NULL || !S->wr->live)
		sim_viol("C06.cancel.io", "send", "send on sock %d although no write request is outstanding (after completion or cancel)", (int)(S - ss));
	else {
		if (S->wr->hard)
			sim_viol("C06.wr.err", "io-after-error", "write id=%d: send again after a send of this request had failed hard", S->wr->id);
		if (result == -1 && err != EAGAIN && err != EWOULDBLOCK && err != EINTR)
			S->wr->hard = 1;
	}
}

/* ---------- accept ---------- */
static void issue_accept(int);

static int
acc_callback(void * cookie, int s)
{
	struct sockst * S = cookie;
	CB_ENTER();

	NOTE("ACCEPT CALLBACK s=%d", s);
	if (!S->acc_live)
		sim_viol("C06.acc.once", "not-live", "accept callback although no accept request is outstanding (cancelled or already completed)");
	S->acc_live = 0;
	S->acc_ncb++;
	sim_trh(0xC3, (uint64_t)(s >= 0), 0);
	if (s >= 0) {
		struct vsock * c = vk_sock(s);

		R->cnt[N_ACC_OK]++;
		if (c == NULL || c->listening || c->id < 0)
			sim_viol("C06.acc.result", "bad-fd", "accept callback carried descriptor %d which the kernel did not return from accept", s);
		/* the application closes it */
		close(s);
		if (S->acc_rearm > 0) {
			S->acc_rearm--;
			R->cnt[N_CHAIN]++;
			in_cb = 1;
			issue_accept((int)(S - ss));
			in_cb = 0;
		}
	} else if (s == -1) {
		R->cnt[N_ACC_ERR]++;
		if (!S->vs->recv_err_seen && !AF_SINCE(S->acc_af))
			sim_viol("C06.acc.soft-error-reported", "soft", "accept callback reported -1 although accept never failed hard (only EAGAIN/ECONNABORTED/EINTR)");
	} else
		sim_viol("C06.acc.result", "range", "accept callback carried %d", s);
	CB_LEAVE();
	return (0);
}

static void
issue_accept(int si)
{
	struct sockst * S = &ss[si];
	int f0, attempt;

	if (S->vs == NULL || S->kind != 1 || S->acc_live)
		return;
	for (attempt = 0; attempt < 2; attempt++) {
		f0 = simalloc_failed;
		S->acc_af = simalloc_failed;
		S->vs->recv_err_seen = 0;
		LIB_ENTER();
		S->acc_cookie = network_accept(S->vs->fd, acc_callback, S);
		LIB_LEAVE();
		if (S->acc_cookie != NULL)
			break;
		if (!AF_SINCE(f0))
			sim_viol("C06.acc.result", "accept-null", "network_accept returned NULL without an allocation failure");
		R->cnt[N_REG_FAIL]++;
		if (sim_af_persist)
			return;
		if (attempt == 1)
			sim_viol("C14.retry", "accept", "network_accept failed again with a healthy allocator");
	}
	S->acc_live = 1;
	R->cnt[N_ACC_REQ]++;
	TR(0x14, si, 0, "network_accept(sock %d)", si);
}

/* ---------- connect ---------- */
#define MAXADDR 6
static struct {
	int active, done, cancelled, ncb;
	void * cookie;
	struct sock_addr * sas[MAXADDR + 1];
	struct sock_addr * sa_b;
	int naddr;
	int beh[MAXADDR];
	uint64_t delay_us[MAXADDR];
	uint64_t timeo_us;
	int timeo_zero;		/* network_connect_timeo with a timeout of {0, 0} */
	int next_j;		/* next address expected to be attempted */
	int cur;		/* address currently being attempted, or -1 */
	int concluded[MAXADDR];	/* failed at once / failed asynchronously as far as the kernel is concerned */
	uint64_t start_us[MAXADDR];
	struct vsock * vs[MAXADDR];
	int fdnum[MAXADDR];
	int af0;
	uint64_t gso0;		/* failed getsockopt calls before this request */
	int base_port;
} CN;
static int nconn;

static void
conn_check_abandon(const char * why)
{
	int c = CN.cur;

	if (c < 0 || CN.concluded[c])
		return;
	if (AF_SINCE(CN.af0) || vk_stats.getsockopt_failed > CN.gso0) {
		/* a fatal error inside the request (out of memory, a failing system call): it may give up at once */
		CN.concluded[c] = 1;
		return;
	}
	if (CN.vs[c] != NULL && CN.vs[c]->cstate == 3) {
		/* the kernel concluded this attempt with an error */
		CN.concluded[c] = 1;
		R->cnt[N_CONN_ASYNCFAIL]++;
		return;
	}
	if ((CN.timeo_us > 0 || CN.timeo_zero) && vk_now_us() >= CN.start_us[c] + CN.timeo_us) {
		CN.concluded[c] = 1;
		R->cnt[N_CONN_TIMEO]++;
		return;
	}
	sim_viol("C06.conn.abandon-early", "abandon", "address %d was abandoned (%s) although it had neither failed nor timed out (state %d, %lu us of %lu)",
	    c, why, CN.vs[c] ? CN.vs[c]->cstate : -1, (unsigned long)(vk_now_us() - CN.start_us[c]), (unsigned long)CN.timeo_us);
}

static int
on_socket(void)
{

	if (!CN.active || CN.done || CN.cancelled)
		return (0);
	conn_check_abandon("socket() for the next address");
	if (CN.next_j >= CN.naddr)
		sim_viol("C06.conn.order", "extra-socket", "socket() called although every address has been attempted");
	if (CN.beh[CN.next_j] == 0) {
		CN.concluded[CN.next_j] = 1;
		CN.cur = -1;
		CN.next_j++;
		return (EMFILE);
	}
	return (0);
}

static int
on_bind(struct vsock * vs)
{

	(void)vs;
	if (!CN.active || CN.done || CN.cancelled || CN.next_j >= CN.naddr)
		return (0);
	if (CN.beh[CN.next_j] == 8) {
		/* the attempt for this address fails at once (before connect) */
		CN.concluded[CN.next_j] = 1;
		CN.cur = -1;
		CN.next_j++;
		R->cnt[N_BINDFAIL]++;
		return (EADDRINUSE);
	}
	return (0);
}

static int
on_connect(struct vsock * vs, int port, struct vk_connect_answer * a)
{
	int j;

	if (!CN.active || CN.done || CN.cancelled)
		return (0);
	j = CN.next_j;
	if (j >= CN.naddr || port != CN.base_port + j)
		sim_viol("C06.conn.order", "order", "connect() to port %d, expected address %d (port %d): addresses must be tried in order, each at most once", port, j, CN.base_port + j);
	CN.cur = j;
	CN.next_j++;
	CN.vs[j] = vs;
	CN.fdnum[j] = vs->fd;
	vs->addr_idx = j;
	vs->txwin = 4096;
	CN.start_us[j] = vk_now_us();
	a->delay_ns = CN.delay_us[j] * 1000;
	switch (CN.beh[j]) {
	case 1:
		a->rc_errno = ECONNREFUSED;
		CN.concluded[j] = 1;
		CN.cur = -1;
		break;
	case 2:
		a->rc_errno = EINPROGRESS;
		a->async_result_errno = ECONNREFUSED;
		break;
	case 3:
		a->rc_errno = EINPROGRESS;
		a->async_result_errno = 0;
		break;
	case 4:
		a->rc_errno = 0;
		break;
	case 5:
		a->rc_errno = EINTR;
		a->async_result_errno = 0;
		break;
	case 6:
		a->rc_errno = EINPROGRESS;
		a->never = 1;
		break;
	case 7:
		a->rc_errno = EINTR;
		a->async_result_errno = ETIMEDOUT;
		break;
	default:
		a->rc_errno = ENETUNREACH;
		CN.concluded[j] = 1;
		CN.cur = -1;
		break;
	}
	return (1);
}

static void
on_close(struct vsock * vs)
{
	int j;

	if (!CN.active || CN.done || CN.cancelled)
		return;
	for (j = 0; j < CN.naddr; j++)
		if (CN.vs[j] == vs && CN.cur == j) {
			/* the library gives up on the current address */
			conn_check_abandon("close of its socket");
			CN.cur = -1;
		}
}

static int
conn_callback(void * cookie, int s)
{
	int j;
	CB_ENTER();

	(void)cookie;
	NOTE("CONNECT CALLBACK s=%d", s);
	if (CN.cancelled)
		sim_viol("C06.cancel.callback", "connect", "connect request called back after it was cancelled");
	if (!CN.active || CN.done)
		sim_viol("C06.conn.once", "twice", "connect request called back more than once");
	CN.done = 1;
	CN.ncb++;
	sim_trh(0xC4, (uint64_t)(s >= 0), (uint64_t)CN.cur);
	if (s >= 0) {
		struct vsock * vs = vk_sock(s);

		R->cnt[N_CONN_OK]++;
		j = vs ? vs->addr_idx : -1;
		if (vs == NULL || j < 0 || CN.vs[j] != vs)
			sim_viol("C06.conn.result", "bad-fd", "connect callback carried descriptor %d which is not a socket of this request", s);
		if (vs->cstate != 2)
			sim_viol("C06.conn.result", "not-connected", "connect callback carried the socket of address %d, which is not connected (state %d)", j, vs->cstate);
		if (j != CN.cur)
			sim_viol("C06.conn.result", "not-current", "connect callback carried the socket of address %d while address %d was current", j, CN.cur);
		close(s);
	} else if (s == -1) {
		R->cnt[N_CONN_FAIL]++;
		if (!AF_SINCE(CN.af0) && vk_stats.getsockopt_failed == CN.gso0) {
			if (CN.cur >= 0)
				conn_check_abandon("callback with -1");
			if (CN.next_j < CN.naddr)
				sim_viol("C06.conn.result", "gave-up", "connect callback reported -1 although address %d of %d was never attempted", CN.next_j, CN.naddr);
		}
	} else
		sim_viol("C06.conn.result", "range", "connect callback carried %d", s);
	CB_LEAVE();
	return (0);
}

static void
issue_connect(const struct pline * l)
{
	int i, f0;
	char addr[64];
	struct timeval tv;

	if (CN.active && !CN.done && !CN.cancelled)
		return;
	if (nconn >= 4)
		return;
	/* free the previous address list */
	for (i = 0; i < CN.naddr; i++)
		sock_addr_free(CN.sas[i]);
	if (CN.sa_b != NULL)
		sock_addr_free(CN.sa_b);
	memset(&CN, 0, sizeof(CN));
	CN.base_port = 1000 + 10 * nconn++;
	CN.naddr = l->ntok > MAXADDR ? MAXADDR : l->ntok;
	for (i = 0; i < CN.naddr; i++) {
		int b = l->tok[i].n > 0 ? (int)l->tok[i].v[0] : 1;

		if (b < 0)
			b = -b;
		CN.beh[i] = b % 9;
		CN.delay_us[i] = l->tok[i].n > 1 && l->tok[i].v[1] > 0 ? (uint64_t)l->tok[i].v[1] : 0;
		snprintf(addr, sizeof(addr), "127.0.0.%d:%d", i + 1, CN.base_port + i);
		CN.sas[i] = sock_resolve_one(addr, 0);
		if (CN.sas[i] == NULL)
			sim_internal("sock_resolve_one failed");
	}
	CN.sas[CN.naddr] = NULL;
	CN.timeo_us = l->nargs > 0 && l->a[0] > 0 ? (uint64_t)l->a[0] : 0;
	/* a timeout of exactly zero is a timeout too: an attempt that does not conclude at once is abandoned at once */
	CN.timeo_zero = (l->nargs > 2 && l->a[2] == 1);
	if (CN.timeo_zero)
		CN.timeo_us = 0;
	/* an address that never answers needs a timeout, or the request could never end */
	if (CN.timeo_us == 0 && !CN.timeo_zero)
		for (i = 0; i < CN.naddr; i++)
			if (CN.beh[i] == 6)
				CN.beh[i] = 2;
	if (l->nargs > 1 && l->a[1] == 1 && CN.timeo_us == 0 && !CN.timeo_zero)
		CN.sa_b = sock_resolve_one("127.0.0.99:999", 0);
	if (CN.sa_b == NULL)
		for (i = 0; i < CN.naddr; i++)
			if (CN.beh[i] == 8)
				CN.beh[i] = 1;
	CN.cur = -1;
	CN.active = 1;
	CN.af0 = simalloc_failed;
	CN.gso0 = vk_stats.getsockopt_failed;
	f0 = simalloc_failed;
	R->cnt[N_CONN_REQ]++;
	TR(0x15, CN.naddr, CN.timeo_us, "network_connect(%d addresses, timeout %lu us%s)", CN.naddr, (unsigned long)CN.timeo_us, CN.sa_b ? ", bind" : "");
	tv.tv_sec = (time_t)(CN.timeo_us / 1000000);
	tv.tv_usec = (suseconds_t)(CN.timeo_us % 1000000);
	LIB_ENTER();
	if (CN.timeo_us > 0 || CN.timeo_zero)
		CN.cookie = network_connect_timeo(CN.sas, &tv, conn_callback, &CN);
	else if (CN.sa_b != NULL)
		CN.cookie = network_connect_bind(CN.sas, CN.sa_b, conn_callback, &CN);
	else
		CN.cookie = network_connect(CN.sas, conn_callback, &CN);
	LIB_LEAVE();
	if (CN.cookie == NULL) {
		if (!AF_SINCE(f0))
			sim_viol("C06.conn.result", "connect-null", "network_connect returned NULL without an allocation failure");
		R->cnt[N_REG_FAIL]++;
		CN.active = 0;
		TR(0x16, 0, 0, "network_connect -> NULL (allocation failed)");
	}
}

static void
cancel_connect(void)
{

	if (!CN.active || CN.done || CN.cancelled)
		return;
	CN.cancelled = 1;
	LIB_ENTER();
	network_connect_cancel(CN.cookie);
	LIB_LEAVE();
	R->cnt[N_CONN_CANCEL]++;
	TR(0x17, 0, 0, "network_connect_cancel");
}

/* ---------- netbuf reader ---------- */
static int nbr_callback(void *, int);
static int use_tls;	/* reader/writer run over the ssl branches of netbuf (null-cipher TLS stand-in) */

static struct network_ssl_ctx *
sock_tls(struct sockst * S)
{

	if (S->tls == NULL) {
		S->tls = network_ssl_open(S->vs->fd, "peer.example.org");
		if (S->tls != NULL)
			R->cnt[N_TLS]++;
	}
	return (S->tls);
}

static void
nbr_look(struct sockst * S, int after_cb, size_t need)
{
	struct nbr * N = &S->nbr;
	uint8_t * data;
	size_t len, i;

	LIB_ENTER();
	netbuf_read_peek(N->R, &data, &len);
	LIB_LEAVE();
	if (N->finished)
		return;
	{
		int plain_ok = 1, gap_ok = (N->lost_n > 0);
		size_t bad = 0;

		if (N->consumed + len > S->vs->rxpos)
			plain_ok = 0;
		for (i = 0; i < len && plain_ok; i++)
			if (N->consumed + i >= S->vs->rxlen || data[i] != S->vs->rx[N->consumed + i]) {
				plain_ok = 0;
				bad = i;
			}
		if (plain_ok && after_cb && N->consumed + len != S->vs->rxpos)
			plain_ok = 0;
		if (!plain_ok && gap_ok) {
			/* known shape: exactly the bytes handed to a cancelled wait are missing */
			for (i = 0; i < len && gap_ok; i++) {
				size_t off = N->consumed + i;

				if (off >= N->lost_at)
					off += N->lost_n;
				if (off >= S->vs->rxpos || data[i] != S->vs->rx[off])
					gap_ok = 0;
			}
			if (gap_ok && after_cb && N->consumed + len + N->lost_n != S->vs->rxpos)
				gap_ok = 0;
			if (gap_ok)
				sim_viol("C07.rd.window", "lost-after-cancel", "after netbuf_read_wait_cancel the %zu bytes the kernel had already handed to the cancelled wait (stream offset %zu) are missing from the reader's stream", N->lost_n, N->lost_at);
		}
		if (!plain_ok) {
			if (N->consumed + len > S->vs->rxpos)
				sim_viol("C07.rd.window", "beyond", "reader shows %zu bytes from stream offset %zu but the kernel has handed out only %zu", len, N->consumed, S->vs->rxpos);
			if (bad < len && (N->consumed + bad >= S->vs->rxlen || data[bad] != S->vs->rx[N->consumed + bad]))
				sim_viol("C07.rd.window", "mismatch", "reader byte %zu (stream offset %zu) differs from what the peer sent", bad, N->consumed + bad);
			sim_viol("C07.rd.window", "hidden-bytes", "after a successful wait the reader shows data up to stream offset %zu but the kernel has handed out %zu", N->consumed + len, S->vs->rxpos);
		}
		if (after_cb && len < need)
			sim_viol("C07.rd.window", "short", "wait for %zu bytes reported success but only %zu unconsumed bytes are visible", need, len);
		if (after_cb)
			N->lost_n = 0;
	}
	N->seen_end = N->consumed + len;
	sim_trh(0xC6, len, N->consumed);
	NOTE("peek: %zu bytes visible from stream offset %zu", len, N->consumed);
}

static void
nbr_consume(struct sockst * S, size_t j, int all)
{
	struct nbr * N = &S->nbr;
	uint8_t * data;
	size_t len;

	LIB_ENTER();
	netbuf_read_peek(N->R, &data, &len);
	LIB_LEAVE();
	if (len == 0)
		return;
	j = all ? len : j % (len + 1);
	LIB_ENTER();
	netbuf_read_consume(N->R, j);
	LIB_LEAVE();
	N->consumed += j;
	if (N->waiting) {
		/* consuming while a wait is outstanding: the wait was for k bytes counted from where the window started then */
		N->consumed_in_wait += j;
		R->cnt[N_NBR_CONSUME_WAITING]++;
	}
	TR(0x22, j, N->consumed, "consume %zu (stream offset now %zu)", j, N->consumed);
}

static void
nbr_wait(struct sockst * S, size_t k, size_t consume_j, int chain_n, size_t chain_k)
{
	struct nbr * N = &S->nbr;
	uint8_t * data;
	size_t len;
	int rc, f0, attempt;

	if (N->R == NULL || N->waiting)
		return;
	LIB_ENTER();
	netbuf_read_peek(N->R, &data, &len);
	LIB_LEAVE();
	if (len >= k)
		R->cnt[N_NBR_IMM]++;
	for (attempt = 0; attempt < 2; attempt++) {
		f0 = simalloc_failed;
		N->af_at_wait = simalloc_failed;
		S->vs->recv_eof_seen = 0;
		S->vs->recv_err_seen = 0;
		N->k = k;
		N->consume_j = consume_j;
		N->chain_n = chain_n;
		N->chain_k = chain_k;
		N->waiting = 1;
		N->consumed_in_wait = 0;
		N->ncb_for_wait = 0;
		LIB_ENTER();
		rc = netbuf_read_wait(N->R, k, nbr_callback, S);
		LIB_LEAVE();
		if (rc == 0)
			break;
		N->waiting = 0;
		if (k > ((size_t)1 << 40)) {
			/* more than any machine can buffer: refusing the wait is the only honest answer */
			R->cnt[N_NBR_HUGE_REFUSED]++;
			TR(0x2E, 0, 0, "netbuf_read_wait(%zu) -> -1 (cannot buffer that much)", k);
			return;
		}
		if (!AF_SINCE(f0))
			sim_viol("C07.rd.status", "wait-fail", "netbuf_read_wait failed without an allocation failure");
		R->cnt[N_REG_FAIL]++;
		TR(0x2F, k, 0, "netbuf_read_wait(%zu) -> -1 (allocation failed)", k);
		if (sim_af_persist)
			return;
		if (attempt == 1)
			sim_viol("C14.retry", "wait", "netbuf_read_wait failed again with a healthy allocator");
	}
	R->cnt[N_NBR_WAIT]++;
	TR(0x20, k, N->consumed, "netbuf_read_wait(%zu) at stream offset %zu%s", k, N->consumed, in_cb ? " [from callback]" : "");
}

static int
nbr_callback(void * cookie, int status)
{
	struct sockst * S = cookie;
	struct nbr * N = &S->nbr;
	CB_ENTER();

	NOTE("READER CALLBACK status=%d", status);
	if (!N->waiting)
		sim_viol("C07.rd.once", "not-waiting", "wait callback although no wait is outstanding (cancelled or already completed)");
	N->waiting = 0;
	sim_trh(0xC5, (uint64_t)status, N->k);
	if (status == 0) {
		R->cnt[N_NBR_OK]++;
		nbr_look(S, 1, N->k > N->consumed_in_wait ? N->k - N->consumed_in_wait : 0);
	} else if (status == 1) {
		R->cnt[N_NBR_EOF]++;
		if (!S->vs->recv_eof_seen && !N->finished)
			sim_viol("C07.rd.status", "eof", "wait reported end-of-stream but no recv returned 0");
		N->finished = 1;
	} else if (status == -1) {
		R->cnt[N_NBR_ERR]++;
		if (!S->vs->recv_err_seen && !AF_SINCE(N->af_at_wait) && !N->finished)
			sim_viol("C07.rd.status", "err", "wait reported an error but no recv failed hard and no allocation failed");
		N->finished = 1;
	} else
		sim_viol("C07.rd.status", "range", "wait callback status %d", status);
	if (N->free_in_cb) {
		/* the application is done with the reader and frees it from inside its own callback */
		N->free_in_cb = 0;
		R->cnt[N_FREE_IN_CB]++;
		TR(0x24, 0, 0, "netbuf_read_free from inside the wait callback");
		LIB_ENTER();
		netbuf_read_free(N->R);
		LIB_LEAVE();
		N->R = NULL;
		N->finished = 1;
		CB_LEAVE();
		return (0);
	}
	if (status == 0) {
		in_cb = 1;
		if (N->consume_j > 0)
			nbr_consume(S, N->consume_j, 0);
		if (N->chain_n > 0) {
			R->cnt[N_CHAIN]++;
			nbr_wait(S, N->chain_k, N->consume_j, N->chain_n - 1, N->chain_k);
		}
		in_cb = 0;
	}
	CB_LEAVE();
	return (0);
}

static void
nbr_cancel(struct sockst * S)
{
	struct nbr * N = &S->nbr;

	if (N->R == NULL)
		return;
	if (N->waiting) {
		size_t inflight = S->vs->rxpos - N->seen_end;

		R->cnt[N_NBR_CANCEL]++;
		if (inflight > 0 && !N->finished) {
			R->cnt[N_NBR_CANCEL_INFLIGHT]++;
			N->lost_at = N->seen_end;
			N->lost_n = inflight;	/* cumulative: everything handed out since the last look */
		}
	}
	LIB_ENTER();
	netbuf_read_wait_cancel(N->R);
	LIB_LEAVE();
	N->waiting = 0;
	TR(0x23, 0, 0, "netbuf_read_wait_cancel");
}

/* ---------- netbuf writer ---------- */
static int
nbw_fail(void * cookie)
{
	struct sockst * S = cookie;
	CB_ENTER();

	NOTE("WRITER FAILURE CALLBACK");
	S->nbw.failed_cb++;
	R->cnt[N_NBW_FAILCB]++;
	sim_trh(0xC7, (uint64_t)S->nbw.failed_cb, 0);
	if (S->nbw.failed_cb > 1)
		sim_viol("C07.wr.fail-once", "twice", "the writer's failure callback fired %d times", S->nbw.failed_cb);
	if (!S->vs->send_err_seen && simalloc_failed == 0)
		sim_viol("C07.wr.fail-once", "spurious", "the writer's failure callback fired although no send failed and no allocation failed");
	if (S->nbw.free_in_failcb) {
		/* the usual reaction to a dead connection: tear the writer down from inside the failure callback */
		R->cnt[N_FREE_IN_CB]++;
		TR(0x34, 0, 0, "netbuf_write_free from inside the failure callback");
		LIB_ENTER();
		netbuf_write_free(S->nbw.W);
		LIB_LEAVE();
		S->nbw.W = NULL;
		S->nbw.dead = 1;
	}
	CB_LEAVE();
	return (0);
}

static void
nbw_check_prefix(struct sockst * S, int final)
{
	struct nbw * W = &S->nbw;

	if (W->forked && S->vs->txlen <= W->alen && memcmp(S->vs->tx, W->alt, S->vs->txlen) == 0)
		return;		/* consistent with "the write that reported failure was not queued" */
	if (S->vs->txlen > W->tlen)
		sim_viol("C07.wr.prefix", "longer", "the peer received %zu bytes but only %zu were written", S->vs->txlen, W->tlen);
	if (memcmp(S->vs->tx, W->truth, S->vs->txlen) != 0)
		sim_viol("C07.wr.prefix", "mismatch", "the bytes the peer received are not a prefix of the concatenation of all writes");
	if (final && !WFAILED(W) && !W->dead && simalloc_failed == 0 && S->vs->txlen != W->tlen)
		sim_viol("C07.wr.complete", "incomplete", "transport never failed but the peer received %zu of %zu bytes", S->vs->txlen, W->tlen);
}

static void
nbw_append_truth(struct nbw * W, const uint8_t * p, size_t n)
{

	if (W->tlen + n > W->tcap) {
		W->tcap = (W->tlen + n) * 2 + 64;
		W->truth = realloc(W->truth, W->tcap);
	}
	memcpy(W->truth + W->tlen, p, n);
	W->tlen += n;
}

static void
nbw_write(struct sockst * S, size_t n, int use_reserve, size_t m)
{
	struct nbw * W = &S->nbw;
	uint8_t * tmp, * dst;
	size_t i, len;
	int rc, f0 = simalloc_failed;
	int inflight;

	if (W->W == NULL || W->dead)
		return;
	len = use_reserve ? (m % (n + 1)) : n;
	tmp = malloc(len + 1);
	for (i = 0; i < len; i++)
		tmp[i] = stream_byte(0x99, W->wctr++);
	inflight = (S->vs->txlen < W->tlen);
	R->cnt[N_NBW_WRITE]++;
	if (len == 0)
		R->cnt[N_NBW_ZERO]++;
	if (use_reserve) {
		LIB_ENTER();
		dst = netbuf_write_reserve(W->W, n);
		LIB_LEAVE();
		if (dst == NULL) {
			if (!AF_SINCE(f0))
				sim_viol("C07.wr.discard", "reserve-null", "netbuf_write_reserve failed without an allocation failure");
			W->dead = 1;
			free(tmp);
			return;
		}
		memcpy(dst, tmp, len);
		LIB_ENTER();
		rc = netbuf_write_consume(W->W, len);
		LIB_LEAVE();
		TR(0x31, n, len, "netbuf_write_reserve(%zu)/consume(%zu) -> %d", n, len, rc);
	} else {
		LIB_ENTER();
		rc = netbuf_write_write(W->W, tmp, len);
		LIB_LEAVE();
		TR(0x30, len, 0, "netbuf_write_write(%zu) -> %d", len, rc);
	}
	if (rc != 0) {
		if (!AF_SINCE(f0))
			sim_viol("C07.wr.discard", "write-fail", "netbuf write failed (%d) without an allocation failure", rc);
		/*
		 * The write reported failure after space was reserved: its bytes may or may not go out later.
		 * Keep both candidate streams; the writer stays in use (once), so that a buffer lost or
		 * duplicated by the failure shows up as a stream that matches neither.
		 */
		if (W->forked || sim_af_persist) {
			W->dead = 1;
			nbw_append_truth(W, tmp, len);
			free(tmp);
			return;
		}
		W->forked = 1;
		W->alt = malloc(W->tlen + 1);
		memcpy(W->alt, W->truth, W->tlen);
		W->alen = W->tlen;
		nbw_append_truth(W, tmp, len);
		free(tmp);
		return;
	}
	if (WFAILED(W)) {
		/* discarded silently */
		W->wrote_after_fail = 1;
	} else {
		nbw_append_truth(W, tmp, len);
		if (W->forked) {
			W->alt = realloc(W->alt, W->alen + len + 1);
			memcpy(W->alt + W->alen, tmp, len);
			W->alen += len;
		}
		R->cnt[N_NBW_BYTES] += len;
		if (inflight)
			R->cnt[N_NBW_QUEUED_BEHIND]++;
	}
	free(tmp);
}

/* ---------- running the loop ---------- */
static int
outstanding(void)
{
	int i, n = 0;

	for (i = 0; i < nss; i++) {
		if (ss[i].rd != NULL || ss[i].wr != NULL || ss[i].acc_live || ss[i].nbr.waiting)
			n++;
		if (ss[i].nbw.W != NULL && !ss[i].nbw.dead && !WFAILED(&ss[i].nbw) && ss[i].vs->txlen < ss[i].nbw.tlen)
			n++;
	}
	if (CN.active && !CN.done && !CN.cancelled)
		n++;
	return (n);
}

static int
on_deadlock(void)
{

	LIB_ENTER();
	events_interrupt();
	LIB_LEAVE();
	return (1);
}

static int
run_loop(int n, const struct pline * tape)
{
	int i, rc = 0, f0;

	vk_polltape = tape;
	vk_polltape_pos = 0;
	for (i = 0; i < n; i++) {
		/* (always one iteration: nothing the model knows of is outstanding, but the library may think otherwise) */
		if (outstanding() == 0 && i > 0)
			break;
		vk_pump();
		f0 = simalloc_failed;
		vk_in_run = 1;
		R->cnt[N_RUNS]++;
		LIB_ENTER();
		rc = events_run();
		LIB_LEAVE();
		vk_in_run = 0;
		R->steps++;
		if (rc != 0 && !AF_SINCE(f0))
			sim_viol("C06.live", "loop-rc", "events_run returned %d although no callback returned non-zero and no allocation failed", rc);
		if (rc != 0)
			break;
		{
			int s;

			for (s = 0; s < nss; s++)
				if (ss[s].nbw.W != NULL)
					nbw_check_prefix(&ss[s], 0);
		}
	}
	vk_polltape = NULL;
	return (rc);
}

/* Release by observation: cancel/free what the harness still owns. */
static void
release_all(void)
{
	int i;

	for (i = 0; i < nss; i++) {
		struct sockst * S = &ss[i];

		if (S->rd != NULL && S->rd->live) {
			if (simalloc_is_live(S->rd->cookie))
				cancel_req(i, 0);
			else
				S->rd = NULL;
		}
		if (S->wr != NULL && S->wr->live) {
			if (simalloc_is_live(S->wr->cookie))
				cancel_req(i, 1);
			else
				S->wr = NULL;
		}
		if (S->acc_live) {
			if (simalloc_is_live(S->acc_cookie)) {
				LIB_ENTER();
				network_accept_cancel(S->acc_cookie);
				LIB_LEAVE();
			}
			S->acc_live = 0;
		}
		if (S->nbr.R != NULL) {
			LIB_ENTER();
			netbuf_read_wait_cancel(S->nbr.R);
			netbuf_read_free(S->nbr.R);
			LIB_LEAVE();
			S->nbr.R = NULL;
			S->nbr.waiting = 0;
		}
		if (S->nbw.W != NULL) {
			if (S->vs->txlen < S->nbw.tlen && !WFAILED(&S->nbw))
				R->cnt[N_NBW_FREE_INFLIGHT]++;
			LIB_ENTER();
			netbuf_write_free(S->nbw.W);
			LIB_LEAVE();
			S->nbw.W = NULL;
		}
		if (S->tls != NULL) {
			/* reader and writer are gone: nothing may be outstanding on the TLS context any more */
			LIB_ENTER();
			network_ssl_close(S->tls);
			LIB_LEAVE();
			S->tls = NULL;
		}
	}
	if (CN.active && !CN.done && !CN.cancelled) {
		if (simalloc_is_live(CN.cookie))
			cancel_connect();
		else
			CN.cancelled = 1;
	}
}

static void
finish(void)
{
	int i, k, lim;
	size_t nl, by;

	/* faults stop; peers play out their scripts; everything outstanding must complete */
	vk_open_all();
	for (i = 0; i < nss; i++)
		if (ss[i].vs != NULL && ss[i].kind == 0 && !ss[i].vs->peer_gone)
			ss[i].vs->rx_eof = 1;	/* the peer has sent everything and closes */
	if (!(sim_af_persist && simalloc_failed)) {
		lim = 40;
		for (i = 0; i < nss; i++)
			if (ss[i].kind == 1 && ss[i].acc_live)
				ss[i].vs->backlog++;
		for (k = 0; k < lim && outstanding() > 0; k++) {
			int before = outstanding();

			for (i = 0; i < nss; i++)
				if (ss[i].kind == 1 && ss[i].acc_live && ss[i].vs->backlog == 0)
					ss[i].vs->backlog++;	/* (an accept re-armed from its callback needs another client) */

			if (run_loop(1, NULL) != 0)
				break;
			if (sim_af_persist && simalloc_failed)
				break;
			/* a request that asks for more than the peer will ever send completes at EOF */
			(void)before;
		}
		if (outstanding() > 0 && !(simalloc_failed)) {
			for (i = 0; i < nss; i++) {
				if (ss[i].rd != NULL)
					sim_viol("C06.live", "read", "read request id=%d did not complete within %d loop iterations after faults stopped and the peer had sent everything and closed", ss[i].rd->id, lim);
				if (ss[i].wr != NULL)
					sim_viol("C06.live", "write", "write request id=%d did not complete within %d loop iterations after faults stopped", ss[i].wr->id, lim);
				if (ss[i].acc_live)
					sim_viol("C06.live", "accept", "accept request did not complete within %d loop iterations although a client is waiting", lim);
				if (ss[i].nbr.waiting)
					sim_viol("C07.rd.live", "wait", "wait for %zu bytes did not complete within %d loop iterations after the peer had sent everything and closed", ss[i].nbr.k, lim);
				if (ss[i].nbw.W != NULL && !ss[i].nbw.dead && !WFAILED(&ss[i].nbw) && ss[i].vs->txlen < ss[i].nbw.tlen)
					sim_viol("C07.wr.complete", "stalled", "writer delivered %zu of %zu bytes within %d loop iterations although the transport never failed", ss[i].vs->txlen, ss[i].nbw.tlen, lim);
			}
			if (CN.active && !CN.done && !CN.cancelled)
				sim_viol("C06.conn.live", "connect", "connect request did not call back within %d loop iterations after every address had concluded", lim);
		}
	}
	for (i = 0; i < nss; i++)
		if (ss[i].nbw.W != NULL) {
			nbw_check_prefix(&ss[i], 1);
			if (ss[i].nbw.send_error_seen && !WFAILED(&ss[i].nbw) && simalloc_failed == 0 && !ss[i].nbw.nocb)
				sim_viol("C07.wr.fail-once", "never", "a send failed hard under the writer but its failure callback never fired");
		}
	/* exactly-once accounting */
	for (i = 0; i < nreq; i++)
		if (!reqs[i].done && !reqs[i].cancelled && reqs[i].cookie != NULL && simalloc_failed == 0)
			sim_viol(reqs[i].dir ? "C06.wr.once" : "C06.rd.once", "never", "request id=%d never called back and was not cancelled", reqs[i].id);
	release_all();
	{
		/* descriptor accounting: every socket the code under test created is closed by now (or was handed over and closed by the application) */
		int k, nopen = 0, fdx = -1;

		for (k = 0; k < VK_MAXSOCK; k++)
			if (vk_socks[k].used && vk_socks[k].from_socket) {
				nopen++;
				fdx = vk_socks[k].fd;
			}
		if (nopen > 0)
			sim_viol(simalloc_failed == 0 ? "C06.conn.fd-leak" : "C14.leak", "fd-leak", "%d socket(s) created by connection attempts (e.g. fd %d) are still open after every request completed or was cancelled", nopen, fdx);
	}
	/* a cancelled request must stay silent: run the loop once more with whatever is left */
	{
		struct timeval tv = { 0, 0 };
		void * t;

		(void)tv;
		(void)t;
	}
	for (i = 0; i < CN.naddr; i++)
		sock_addr_free(CN.sas[i]);
	if (CN.sa_b != NULL)
		sock_addr_free(CN.sa_b);
	CN.naddr = 0;
	simalloc_run_atexit();
	nl = simalloc_lib_live(&by);
	if (nl != 0) {
		if (sim_verbose)
			simalloc_dump_live();
		sim_viol("C14.leak", "leak", "%zu library blocks (%zu bytes) still allocated after every request completed or was cancelled/freed and the exit handlers ran", nl, by);
	}
}

/* ---------- plan generation ---------- */
static const size_t sizes_k[] = { 0, 1, 2, 7, 100, 1000, 4095, 4096, 4097, 5000, 8191, 8192, 8193, 12000, 20000, 70000, 300000 };

static void
gen_tape(struct prng * g, struct pline * l, int n, int pe, int pi, int pshort, int perr)
{
	int i;

	for (i = 0; i < n; i++) {
		unsigned x = prng_n(g, 100);

		if (x < (unsigned)pe)
			pline_tok(l, 1, (int64_t)TD_EAGAIN);
		else if (x < (unsigned)(pe + pi))
			pline_tok(l, 1, (int64_t)TD_EINTR);
		else if (x < (unsigned)(pe + pi + pshort))
			pline_tok(l, 2, (int64_t)TD_CAP, (int64_t)(prng_chance(g, 40) ? 1 : 1 + prng_n(g, 3000)));
		else if (x < (unsigned)(pe + pi + pshort + perr)) {
			static const int errs[] = { ECONNRESET, EPIPE, ETIMEDOUT, EIO, ENOBUFS, ENOMEM, ENOTCONN, EHOSTUNREACH };

			pline_tok(l, 2, (int64_t)TD_ERRNO, (int64_t)errs[prng_n(g, 8)]);
		} else
			pline_tok(l, 1, (int64_t)TD_DEFAULT);
	}
}

static void
gen_polltape(struct prng * g, struct pline * l, int faulty)
{
	int np = (int)prng_n(g, 6), k;

	for (k = 0; k < np; k++) {
		unsigned x = prng_n(g, 100);

		if (faulty && x < 6)
			pline_tok(l, 1, (int64_t)1);
		else if (faulty && x < 14)
			pline_tok(l, 2, (int64_t)3, (int64_t)prng_n(g, 8));
		else
			pline_tok(l, 1, (int64_t)0);
	}
}

/* script for a stream peer: deliver `total' bytes in segments, then EOF or RST or nothing; drains */
static void
gen_stream_script(struct prng * g, struct pline * l, size_t total, int faulty)
{
	size_t left = total;
	int segstyle = (int)prng_n(g, 4);
	int nseg = 0;

	while (left > 0 && nseg < 60) {
		size_t n;

		switch (segstyle) {
		case 0: n = left; break;
		case 1: n = 1 + prng_n(g, 5); break;
		case 2: n = 1 + prng_n(g, 3000); break;
		default: n = prng_chance(g, 50) ? 1 + prng_n(g, 10) : 1 + prng_n(g, 9000); break;
		}
		if (n > left || nseg == 59)
			n = left;
		pline_tok(l, 3, (int64_t)PE_DELIVER, (int64_t)(prng_chance(g, 40) ? 0 : prng_n(g, 3000)), (int64_t)n);
		left -= n;
		nseg++;
		if (prng_chance(g, 25))
			pline_tok(l, 3, (int64_t)PE_DRAIN, (int64_t)prng_n(g, 2000), (int64_t)(1 + prng_n(g, 8192)));
	}
	{
		int nd = (int)prng_n(g, 6), i;

		for (i = 0; i < nd; i++)
			pline_tok(l, 3, (int64_t)PE_DRAIN, (int64_t)prng_n(g, 2000), (int64_t)(1 + prng_n(g, 20000)));
	}
	if (faulty && prng_chance(g, 15))
		pline_tok(l, 3, (int64_t)PE_RST, (int64_t)prng_n(g, 3000), (int64_t)ECONNRESET);
	else if (prng_chance(g, 70))
		pline_tok(l, 3, (int64_t)PE_EOF, (int64_t)prng_n(g, 3000), (int64_t)0);
}

void
engine_gen(struct plan * P, uint64_t seed, struct prng * g)
{
	int scenario, faulty, nsock, i, s, nsteps;
	struct pline * l;
	int pe, pi, ps, perr;

	(void)seed;
	scenario = (int)prng_n(g, 11);	/* 0-2 raw rw, 3 connect, 4 accept, 5-7 reader, 8-9 writer, 10 many sockets at once */
	faulty = prng_chance(g, 75);
	pe = faulty && prng_chance(g, 60) ? (int)prng_n(g, 25) : 0;
	pi = faulty && prng_chance(g, 60) ? (int)prng_n(g, 15) : 0;
	ps = faulty && prng_chance(g, 70) ? (int)prng_n(g, 40) : 0;
	perr = faulty && prng_chance(g, 25) ? 1 + (int)prng_n(g, 4) : 0;
	plan_add(P, "knob", "scenario", 1, (int64_t)scenario);
	if (scenario >= 5 && scenario <= 9)
	{
		/* tls: 0 plain, 1 the reader/writer under test use the TLS variant, 2 plain, but TLS was used earlier in the process */
		unsigned tx = prng_n(g, 100);

		plan_add(P, "knob", "tls", 1, (int64_t)(tx < 25 ? 1 : tx < 40 ? 2 : 0));
	}
	plan_add(P, "knob", "fd_base", 1, (int64_t)(prng_chance(g, 20) ? 3 + prng_n(g, 200) : prng_chance(g, 15) ? 0 : 3));
	plan_add(P, "knob", "bare_err", 1, (int64_t)prng_chance(g, 25));
	/* failing system calls: the n-th getsockopt(SO_ERROR) / close of the run */
	plan_add(P, "knob", "gso_fail", 1, (int64_t)(prng_chance(g, 10) ? (int64_t)prng_n(g, 4) : (int64_t)-1));
	plan_add(P, "knob", "close_fail", 1, (int64_t)(prng_chance(g, 12) ? (int64_t)prng_n(g, 6) : (int64_t)-1));
	plan_add(P, "knob", "tick_ns", 1, prng_chance(g, 25) ? (int64_t)prng_n(g, 3000) : (int64_t)0);
	plan_add(P, "knob", "fill", 1, (int64_t)(prng_chance(g, 50) ? 256 : (prng_chance(g, 50) ? 0xff : 0)));

	if (scenario <= 2) {
		nsock = 1 + (int)prng_n(g, 3);
		for (i = 0; i < nsock; i++) {
			char nm[8];
			size_t total = prng_chance(g, 30) ? prng_n(g, 200) : prng_n(g, 30000);

			snprintf(nm, sizeof(nm), "%d", i);
			l = plan_add(P, "sock", nm, 4, (int64_t)0, (int64_t)(prng_chance(g, 30) ? prng_n(g, 10) : prng_n(g, 8192)),
			    (int64_t)prng_n(g, 1000000), (int64_t)total);
			gen_stream_script(g, l, total, faulty);
			l = plan_add(P, "tape", nm, 1, (int64_t)0);
			gen_tape(g, l, (int)prng_n(g, 30), pe, pi, ps, perr);
			l = plan_add(P, "tape", nm, 1, (int64_t)1);
			gen_tape(g, l, (int)prng_n(g, 30), pe, pi, ps, perr);
		}
		nsteps = 4 + (int)prng_n(g, 25);
		for (s = 0; s < nsteps; s++) {
			unsigned x = prng_n(g, 100);
			int si = (int)prng_n(g, (uint32_t)nsock);

			if (x < 30) {
				size_t bl = prng_chance(g, 30) ? 1 + prng_n(g, 20) : 1 + prng_n(g, 20000);
				size_t mn;

				switch (prng_n(g, 4)) {
				case 0: mn = 0; break;
				case 1: mn = 1; break;
				case 2: mn = bl; break;
				default: mn = prng_n(g, (uint32_t)bl + 1); break;
				}
				plan_add(P, "step", "rd", 6, (int64_t)si, (int64_t)bl, (int64_t)mn, (int64_t)(prng_chance(g, 35) ? 1 + prng_n(g, 3) : 0),
				    (int64_t)(1 + prng_n(g, 5000)), (int64_t)prng_n(g, 3));
			} else if (x < 55) {
				size_t bl = prng_chance(g, 30) ? 1 + prng_n(g, 20) : 1 + prng_n(g, 20000);
				size_t mn;

				switch (prng_n(g, 4)) {
				case 0: mn = 0; break;
				case 1: mn = 1; break;
				case 2: mn = bl; break;
				default: mn = prng_n(g, (uint32_t)bl + 1); break;
				}
				plan_add(P, "step", "wr", 6, (int64_t)si, (int64_t)bl, (int64_t)mn, (int64_t)(prng_chance(g, 35) ? 1 + prng_n(g, 3) : 0),
				    (int64_t)(1 + prng_n(g, 5000)), (int64_t)prng_n(g, 3));
			} else if (x < 63)
				plan_add(P, "step", "cancel", 2, (int64_t)si, (int64_t)prng_n(g, 2));
			else if (x < 64)
				plan_add(P, "step", "wr_bulk", 3, (int64_t)si, (int64_t)prng_n(g, 7), (int64_t)prng_n(g, 3));
			else if (x < 68)
				plan_add(P, "step", "work", 1, (int64_t)prng_n(g, 5000));
			else {
				l = plan_add(P, "step", "run", 1, (int64_t)(1 + prng_n(g, 4)));
				gen_polltape(g, l, faulty);
			}
		}
	} else if (scenario == 10) {
		/* more than 16 requests outstanding at once, completing back to back in one poll round */
		nsock = 17 + (int)prng_n(g, 14);
		for (i = 0; i < nsock; i++) {
			char nm[8];
			size_t total = 1 + prng_n(g, 40);

			snprintf(nm, sizeof(nm), "%d", i);
			l = plan_add(P, "sock", nm, 4, (int64_t)0, (int64_t)(1 + prng_n(g, 100)), (int64_t)prng_n(g, 1000000), (int64_t)total);
			pline_tok(l, 3, (int64_t)PE_DELIVER, (int64_t)(prng_chance(g, 80) ? 500 : prng_n(g, 2000)), (int64_t)total);
			if (prng_chance(g, 50))
				pline_tok(l, 3, (int64_t)PE_EOF, (int64_t)prng_n(g, 100), (int64_t)0);
		}
		for (i = 0; i < nsock; i++) {
			plan_add(P, "step", "rd", 6, (int64_t)i, (int64_t)(1 + prng_n(g, 64)), (int64_t)prng_n(g, 2), (int64_t)(prng_chance(g, 20) ? 1 : 0), (int64_t)8, (int64_t)1);
			if (prng_chance(g, 40))
				plan_add(P, "step", "wr", 6, (int64_t)i, (int64_t)(1 + prng_n(g, 200)), (int64_t)prng_n(g, 2), (int64_t)0, (int64_t)8, (int64_t)1);
		}
		nsteps = 2 + (int)prng_n(g, 6);
		for (s = 0; s < nsteps; s++) {
			unsigned x = prng_n(g, 100);

			if (x < 25)
				plan_add(P, "step", "cancel", 2, (int64_t)prng_n(g, (uint32_t)nsock), (int64_t)prng_n(g, 2));
			else if (x < 45)
				plan_add(P, "step", "rd", 6, (int64_t)prng_n(g, (uint32_t)nsock), (int64_t)(1 + prng_n(g, 64)), (int64_t)1, (int64_t)0, (int64_t)8, (int64_t)1);
			else {
				l = plan_add(P, "step", "run", 1, (int64_t)(1 + prng_n(g, 4)));
				gen_polltape(g, l, faulty);
			}
		}
	} else if (scenario == 3) {
		int nc = 1 + (int)prng_n(g, 2), c;

		for (c = 0; c < nc; c++) {
			int na = (int)prng_n(g, MAXADDR), a;
			int64_t timeo = prng_chance(g, 55) ? (int64_t)(1000 + prng_n(g, 200000)) : 0;

			l = plan_add(P, "step", "connect", 3, timeo, (int64_t)prng_chance(g, 20), (int64_t)prng_chance(g, 7));
			for (a = 0; a < na; a++) {
				static const int behs[] = { 0, 1, 1, 2, 2, 2, 3, 3, 4, 5, 6, 6, 7, 8 };
				int64_t d = prng_chance(g, 50) ? (int64_t)prng_n(g, 3000) : (int64_t)prng_n(g, 400000);

				pline_tok(l, 2, (int64_t)behs[prng_n(g, sizeof(behs) / sizeof(behs[0]))], d);
			}
			nsteps = 1 + (int)prng_n(g, 8);
			for (s = 0; s < nsteps; s++) {
				unsigned x = prng_n(g, 100);

				if (x < 8)
					plan_add(P, "step", "cancel_connect", 0);
				else if (x < 20)
					plan_add(P, "step", "work", 1, (int64_t)prng_n(g, 100000));
				else {
					l = plan_add(P, "step", "run", 1, (int64_t)(1 + prng_n(g, 4)));
					gen_polltape(g, l, faulty);
				}
			}
			if (prng_chance(g, 60)) {
				l = plan_add(P, "step", "run", 1, (int64_t)30);
			}
		}
	} else if (scenario == 4) {
		int ncl = (int)prng_n(g, 5);

		l = plan_add(P, "sock", "0", 4, (int64_t)1, (int64_t)0, (int64_t)0, (int64_t)0);
		for (i = 0; i < ncl; i++)
			pline_tok(l, 3, (int64_t)PE_CLIENT, (int64_t)prng_n(g, 5000), (int64_t)0);
		l = plan_add(P, "tape", "0", 1, (int64_t)2);
		{
			int n = (int)prng_n(g, 12);

			for (i = 0; i < n; i++) {
				unsigned x = prng_n(g, 100);

				if (!faulty || x < 40)
					pline_tok(l, 1, (int64_t)TD_DEFAULT);
				else if (x < 55)
					pline_tok(l, 1, (int64_t)TD_EAGAIN);
				else if (x < 70)
					pline_tok(l, 1, (int64_t)TD_EINTR);
				else if (x < 90)
					pline_tok(l, 1, (int64_t)TD_ECONNABORTED);
				else
					pline_tok(l, 2, (int64_t)TD_ERRNO, (int64_t)EMFILE);
			}
		}
		nsteps = 3 + (int)prng_n(g, 12);
		for (s = 0; s < nsteps; s++) {
			unsigned x = prng_n(g, 100);

			if (x < 40)
				plan_add(P, "step", "accept", 2, (int64_t)0, (int64_t)(prng_chance(g, 40) ? 1 + prng_n(g, 3) : 0));
			else if (x < 48)
				plan_add(P, "step", "cancel_accept", 1, (int64_t)0);
			else {
				l = plan_add(P, "step", "run", 1, (int64_t)(1 + prng_n(g, 3)));
				gen_polltape(g, l, faulty);
			}
		}
	} else if (scenario <= 7) {
		size_t total = prng_chance(g, 25) ? prng_n(g, 5000) : (prng_chance(g, 70) ? prng_n(g, 40000) : prng_n(g, 400000));

		l = plan_add(P, "sock", "0", 4, (int64_t)0, (int64_t)4096, (int64_t)prng_n(g, 1000000), (int64_t)total);
		gen_stream_script(g, l, total, faulty);
		l = plan_add(P, "tape", "0", 1, (int64_t)0);
		gen_tape(g, l, (int)prng_n(g, 40), pe, pi, ps, perr);
		plan_add(P, "step", "nbr_init", 1, (int64_t)0);
		nsteps = 4 + (int)prng_n(g, 30);
		for (s = 0; s < nsteps; s++) {
			unsigned x = prng_n(g, 100);

			if (x < 35) {
				size_t k = prng_chance(g, 50) ? sizes_k[prng_n(g, sizeof(sizes_k) / sizeof(sizes_k[0]))] : prng_n(g, 6000);
				size_t ck = prng_chance(g, 50) ? sizes_k[prng_n(g, 12)] : prng_n(g, 6000);

				plan_add(P, "step", "nbr_wait", 7, (int64_t)0, (int64_t)k, (int64_t)(prng_chance(g, 60) ? prng_n(g, 9000) : 0),
				    (int64_t)(prng_chance(g, 40) ? 1 + prng_n(g, 4) : 0), (int64_t)ck, (int64_t)prng_chance(g, 4),
				    (int64_t)(prng_chance(g, 4) ? 1 + prng_n(g, 3) : 0));
			} else if (x < 45)
				plan_add(P, "step", "nbr_peek", 1, (int64_t)0);
			else if (x < 60)
				plan_add(P, "step", "nbr_consume", 3, (int64_t)0, (int64_t)prng_n(g, 10000), (int64_t)prng_chance(g, 30));
			else if (x < 67)
				plan_add(P, "step", "nbr_cancel", 1, (int64_t)0);
			else if (x < 71)
				plan_add(P, "step", "work", 1, (int64_t)prng_n(g, 5000));
			else {
				l = plan_add(P, "step", "run", 1, (int64_t)(1 + prng_n(g, 5)));
				gen_polltape(g, l, faulty);
			}
		}
	} else {
		l = plan_add(P, "sock", "0", 4, (int64_t)0, (int64_t)(prng_chance(g, 40) ? prng_n(g, 100) : prng_n(g, 9000)), (int64_t)0, (int64_t)0);
		gen_stream_script(g, l, 0, faulty);
		l = plan_add(P, "tape", "0", 1, (int64_t)1);
		gen_tape(g, l, (int)prng_n(g, 40), pe, pi, ps, perr);
		plan_add(P, "step", "nbw_init", 3, (int64_t)0, (int64_t)prng_chance(g, 35), (int64_t)prng_chance(g, 12));
		if (prng_chance(g, 25)) {
			/* several buffers queued, the transport fails, the application keeps using the writer */
			plan_add(P, "step", "nbw_write", 2, (int64_t)0, (int64_t)(4097 + prng_n(g, 9000)));
			plan_add(P, "step", "nbw_write", 2, (int64_t)0, (int64_t)(1 + prng_n(g, 9000)));
			plan_add(P, "step", "nbw_reserve", 3, (int64_t)0, (int64_t)(4097 + prng_n(g, 100)), (int64_t)(4097 + prng_n(g, 100)));
			l = plan_add(P, "step", "run", 1, (int64_t)(1 + prng_n(g, 3)));
			plan_add(P, "step", "inject_send_error", 1, (int64_t)0);
			l = plan_add(P, "step", "run", 1, (int64_t)(1 + prng_n(g, 3)));
			plan_add(P, "step", "nbw_reserve", 3, (int64_t)0, (int64_t)(1 + prng_n(g, 200)), (int64_t)prng_n(g, 300));
			plan_add(P, "step", "nbw_write", 2, (int64_t)0, (int64_t)(1 + prng_n(g, 200)));
			l = plan_add(P, "step", "run", 1, (int64_t)(1 + prng_n(g, 4)));
		}
		nsteps = 4 + (int)prng_n(g, 30);
		for (s = 0; s < nsteps; s++) {
			unsigned x = prng_n(g, 100);
			size_t n = prng_chance(g, 50) ? sizes_k[prng_n(g, 15)] : prng_n(g, 6000);

			if (x < 35)
				plan_add(P, "step", "nbw_write", 2, (int64_t)0, (int64_t)n);
			else if (x < 55)
				plan_add(P, "step", "nbw_reserve", 3, (int64_t)0, (int64_t)n, (int64_t)(prng_chance(g, 50) ? n : prng_n(g, 100000)));
			else if (x < 58)
				plan_add(P, "step", "nbw_free", 1, (int64_t)0);
			else if (x < 62)
				plan_add(P, "step", "work", 1, (int64_t)prng_n(g, 5000));
			else {
				l = plan_add(P, "step", "run", 1, (int64_t)(1 + prng_n(g, 5)));
				gen_polltape(g, l, faulty);
			}
		}
	}
}

/* ---------- plan execution ---------- */
void
engine_zygote_init(void)
{
}

static void
setup_socket(const struct plan * P, const struct pline * l)
{
	int idx = atoi(l->name), i, k;
	struct sockst * S;
	struct pev ev[128];
	int nev = 0;

	if (idx < 0 || idx >= MAXS || ss[idx].vs != NULL)
		return;
	S = &ss[idx];
	if (idx >= nss)
		nss = idx + 1;
	S->kind = l->nargs > 0 && l->a[0] == 1;
	S->vs = S->kind ? vk_new_listener() : vk_new_stream();
	if (!S->kind) {
		size_t total = l->nargs > 3 && l->a[3] > 0 ? (size_t)l->a[3] : 0;
		uint8_t * rx;
		size_t o;

		if (total > 500000)
			total = 500000;
		S->rxseed = l->nargs > 2 ? (uint64_t)l->a[2] : 0;
		rx = malloc(total + 1);
		for (o = 0; o < total; o++)
			rx[o] = stream_byte(S->rxseed, o);
		vk_set_rx(S->vs, rx, total);
		S->vs->txwin = l->nargs > 1 && l->a[1] > 0 ? (size_t)l->a[1] : 0;
	}
	for (i = 0; i < l->ntok && nev < 128; i++) {
		const struct tok * t = &l->tok[i];
		struct pev * e = &ev[nev++];

		e->type = t->n > 0 ? (int)(t->v[0] < 0 ? -t->v[0] : t->v[0]) % 5 : PE_DELIVER;
		e->delay_ns = t->n > 1 && t->v[1] > 0 ? (uint64_t)t->v[1] * 1000 : 0;
		e->arg = t->n > 2 ? t->v[2] : 0;
		if (e->arg < 0)
			e->arg = -e->arg;
		if (e->type == PE_RST && e->arg == 0)
			e->arg = ECONNRESET;
		e->need_tx = -1;
	}
	vk_script(S->vs, ev, nev);
	/* tapes */
	for (k = 0; k < P->n; k++) {
		const struct pline * t = &P->l[k];
		struct tdir d[256];
		int nd = 0, which;

		if (strcmp(t->kind, "tape") || atoi(t->name) != idx)
			continue;
		which = t->nargs > 0 ? (int)t->a[0] : 0;
		for (i = 0; i < t->ntok && nd < 256; i++) {
			d[nd].kind = t->tok[i].n > 0 ? (int)(t->tok[i].v[0] < 0 ? -t->tok[i].v[0] : t->tok[i].v[0]) % 6 : TD_DEFAULT;
			d[nd].arg = t->tok[i].n > 1 ? t->tok[i].v[1] : 0;
			if (d[nd].kind == TD_ERRNO && d[nd].arg <= 0)
				d[nd].arg = EIO;
			if (d[nd].kind == TD_ECONNABORTED && which != 2)
				d[nd].kind = TD_EAGAIN;
			nd++;
		}
		vk_tape(which == 0 ? &S->vs->t_recv : which == 1 ? &S->vs->t_send : &S->vs->t_accept, d, nd);
	}
}

static size_t
arg(const struct pline * l, int i, size_t max)
{
	int64_t v = i < l->nargs ? l->a[i] : 0;

	if (v < 0)
		v = -v;
	if ((uint64_t)v > max)
		v = (int64_t)max;
	return ((size_t)v);
}

void
engine_run(const struct plan * P)
{
	int i, step = 0;

	use_tls = (int)plan_knob(P, "tls", 0) == 1;
	tls_stub_oracle = "C07.tls-contract";
	vk_block_oracle = "C06.conn.blocking";
	vk_bare_err = (int)plan_knob(P, "bare_err", 0) == 1;
	vk_getsockopt_fail_at = (int)plan_knob(P, "gso_fail", -1);
	vk_close_fail_at = (int)plan_knob(P, "close_fail", -1);
	snprintf(R->crash_prop, sizeof(R->crash_prop), "%s", (plan_knob(P, "scenario", 0) >= 5 && plan_knob(P, "scenario", 0) <= 9) ? "C07" : "C06");
	vk_fd_base = (int)plan_knob(P, "fd_base", 3);
	if (vk_fd_base < 0)
		vk_fd_base = 0;	/* (a daemon with descriptors 0-2 closed gets 0 from socket()) */
	if (vk_fd_base > 300)
		vk_fd_base = 300;
	vk_tick_ns = (uint64_t)plan_knob(P, "tick_ns", 0);
	if (vk_tick_ns > 1000000)
		vk_tick_ns = 1000000;
	simalloc_fill = (int)plan_knob(P, "fill", -1);
	simalloc_fill_seed = 777;
	vk_on_recv = on_recv;
	vk_on_send = on_send;
	vk_on_socket = on_socket;
	vk_on_connect = on_connect;
	vk_on_bind = on_bind;
	vk_on_close = on_close;
	vk_on_deadlock = on_deadlock;
	CN.cur = -1;

	for (i = 0; i < P->n; i++)
		if (!strcmp(P->l[i].kind, "sock"))
			setup_socket(P, &P->l[i]);

	if ((int)plan_knob(P, "tls", 0) == 2) {
		/*
		 * The process has used TLS on another connection before (the netbuf TLS glue pointers are installed
		 * and stay so); the connection under test is a plain one.
		 */
		struct vsock * scratch = vk_new_stream();
		struct network_ssl_ctx * ctx;
		struct netbuf_read * r0;
		struct netbuf_write * w0;

		LIB_ENTER();
		ctx = network_ssl_open(scratch->fd, "other.example.org");
		r0 = ctx ? netbuf_ssl_read_init(ctx) : NULL;
		w0 = ctx ? netbuf_ssl_write_init(ctx, nbw_fail, &ss[0]) : NULL;
		if (r0 != NULL)
			netbuf_read_free(r0);
		if (w0 != NULL)
			netbuf_write_free(w0);
		if (ctx != NULL)
			network_ssl_close(ctx);
		LIB_LEAVE();
		close(scratch->fd);
		R->cnt[N_TLS_EARLIER]++;
	}

	for (i = 0; i < P->n; i++) {
		const struct pline * l = &P->l[i];
		int si;

		if (strcmp(l->kind, "step"))
			continue;
		simalloc_step(step++);
		cur_step_failed0 = simalloc_failed;
		vk_pump();
		si = (int)arg(l, 0, MAXS - 1);
		if (si >= nss || ss[si].vs == NULL)
			si = 0;
		if (!strcmp(l->name, "run")) {
			run_loop((int)arg(l, 0, 50), l);
		} else if (!strcmp(l->name, "work")) {
			vk_now_ns += (uint64_t)arg(l, 0, 10000000) * 1000;
		} else if (!strcmp(l->name, "connect")) {
			issue_connect(l);
		} else if (!strcmp(l->name, "cancel_connect")) {
			cancel_connect();
		} else if (nss == 0 || ss[si].vs == NULL) {
			continue;
		} else if (!strcmp(l->name, "rd")) {
			issue_read(si, arg(l, 1, 1 << 20), arg(l, 2, 1 << 20), (int)arg(l, 3, 8), arg(l, 4, 1 << 20) ? arg(l, 4, 1 << 20) : 1, arg(l, 5, 1 << 20));
		} else if (!strcmp(l->name, "wr")) {
			issue_write(si, arg(l, 1, 1 << 20), arg(l, 2, 1 << 20), (int)arg(l, 3, 8), arg(l, 4, 1 << 20) ? arg(l, 4, 1 << 20) : 1, arg(l, 5, 1 << 20));
		} else if (!strcmp(l->name, "wr_bulk")) {
			issue_bulk_write(si, (int)arg(l, 1, 6), (int)arg(l, 2, 2));
		} else if (!strcmp(l->name, "cancel")) {
			cancel_req(si, (int)arg(l, 1, 1));
		} else if (!strcmp(l->name, "accept")) {
			ss[si].acc_rearm = (int)arg(l, 1, 4);
			issue_accept(si);
		} else if (!strcmp(l->name, "cancel_accept")) {
			if (ss[si].acc_live) {
				LIB_ENTER();
				network_accept_cancel(ss[si].acc_cookie);
				LIB_LEAVE();
				ss[si].acc_live = 0;
				R->cnt[N_CANCEL]++;
				TR(0x18, si, 0, "network_accept_cancel");
			}
		} else if (!strcmp(l->name, "nbr_init")) {
			if (ss[si].kind == 0 && ss[si].nbr.R == NULL && ss[si].rd == NULL) {
				int f0 = simalloc_failed;

				LIB_ENTER();
				if (use_tls)
					ss[si].nbr.R = sock_tls(&ss[si]) ? netbuf_ssl_read_init(ss[si].tls) : NULL;
				else
					ss[si].nbr.R = netbuf_read_init(ss[si].vs->fd);
				LIB_LEAVE();
				if (ss[si].nbr.R == NULL && !AF_SINCE(f0))
					sim_viol("C07.rd.status", "init-null", "netbuf_read_init failed without an allocation failure");
				ss[si].nbr.consumed = ss[si].nbr.seen_end = ss[si].vs->rxpos;
			}
		} else if (!strcmp(l->name, "nbr_wait")) {
			if (ss[si].nbr.R != NULL && !ss[si].nbr.waiting)
				ss[si].nbr.free_in_cb = (int)arg(l, 5, 1);
			{
				size_t k = arg(l, 1, 400000);

				/* wait lengths no buffer can hold: at the top of the size_t range, and around its middle */
				if (arg(l, 6, 3) == 1)
					k = SIZE_MAX - k;
				else if (arg(l, 6, 3) == 2)
					k = SIZE_MAX / 2 + 1 + k;
				else if (arg(l, 6, 3) == 3)
					k = SIZE_MAX / 2 - k;
				nbr_wait(&ss[si], k, arg(l, 2, 1 << 20), (int)arg(l, 3, 8), arg(l, 4, 400000));
			}
		} else if (!strcmp(l->name, "nbr_peek")) {
			if (ss[si].nbr.R != NULL && !ss[si].nbr.waiting)
				nbr_look(&ss[si], 0, 0);
		} else if (!strcmp(l->name, "nbr_consume")) {
			if (ss[si].nbr.R != NULL && !ss[si].nbr.finished)
				nbr_consume(&ss[si], arg(l, 1, 1 << 20), (int)arg(l, 2, 1));
		} else if (!strcmp(l->name, "nbr_cancel")) {
			nbr_cancel(&ss[si]);
		} else if (!strcmp(l->name, "nbw_init")) {
			if (ss[si].kind == 0 && ss[si].nbw.W == NULL && ss[si].wr == NULL && ss[si].nbw.tlen == 0) {
				int f0 = simalloc_failed;

				int (* fcb)(void *) = arg(l, 2, 1) ? NULL : nbw_fail;	/* an application may not want to hear about failures */

				ss[si].vs->send_err_seen = 0;
				ss[si].nbw.nocb = (fcb == NULL);
				if (fcb == NULL)
					R->cnt[N_NBW_NOCB]++;
				LIB_ENTER();
				if (use_tls)
					ss[si].nbw.W = sock_tls(&ss[si]) ? netbuf_ssl_write_init(ss[si].tls, fcb, &ss[si]) : NULL;
				else
					ss[si].nbw.W = netbuf_write_init(ss[si].vs->fd, fcb, &ss[si]);
				/* freeing nothing is allowed */
				netbuf_write_free(NULL);
				netbuf_read_free(NULL);
				LIB_LEAVE();
				ss[si].nbw.free_in_failcb = (int)arg(l, 1, 1);
				if (ss[si].nbw.W == NULL && !AF_SINCE(f0))
					sim_viol("C07.wr.discard", "init-null", "netbuf_write_init failed without an allocation failure");
			}
		} else if (!strcmp(l->name, "nbw_write")) {
			nbw_write(&ss[si], arg(l, 1, 200000), 0, 0);
		} else if (!strcmp(l->name, "nbw_reserve")) {
			nbw_write(&ss[si], arg(l, 1, 200000), 1, arg(l, 2, 1 << 20));
		} else if (!strcmp(l->name, "inject_send_error")) {
			/* the connection breaks now: the next send fails hard */
			ss[si].vs->rx_err = ECONNRESET;
			ss[si].vs->peer_gone = 1;
			TR(0x33, si, 0, "the connection of sock %d breaks (next send fails)", si);
		} else if (!strcmp(l->name, "nbw_free")) {
			if (ss[si].nbw.W != NULL) {
				nbw_check_prefix(&ss[si], 0);
				if (ss[si].vs->txlen < ss[si].nbw.tlen && !WFAILED(&ss[si].nbw))
					R->cnt[N_NBW_FREE_INFLIGHT]++;
				LIB_ENTER();
				netbuf_write_free(ss[si].nbw.W);
				LIB_LEAVE();
				ss[si].nbw.W = NULL;
				ss[si].nbw.dead = 1;
				TR(0x32, 0, 0, "netbuf_write_free");
			}
		}
		R->steps++;
	}
	simalloc_step(step++);
	finish();

	R->sim_ns = vk_now_ns - VK_T0_NS;
	R->cnt[N_F_RECV_SHORT] = vk_stats.recv_short;
	R->cnt[N_F_RECV_EAGAIN] = vk_stats.recv_eagain;
	R->cnt[N_F_RECV_EINTR] = vk_stats.recv_eintr;
	R->cnt[N_F_RECV_ERR] = vk_stats.recv_err;
	R->cnt[N_F_SEND_SHORT] = vk_stats.send_short;
	R->cnt[N_F_SEND_EAGAIN] = vk_stats.send_eagain;
	R->cnt[N_F_SEND_EINTR] = vk_stats.send_eintr;
	R->cnt[N_F_SEND_ERR] = vk_stats.send_err;
	R->cnt[N_F_POLL_EINTR] = vk_stats.poll_eintr;
	R->cnt[N_F_POLL_SPUR] = vk_stats.poll_spurious;
	R->cnt[N_F_BARE_ERR] = vk_stats.bare_err;
	R->cnt[N_F_BLOCKING_CONNECT] = vk_stats.connect_blocking;
	R->cnt[N_F_GSO] = vk_stats.getsockopt_failed;
	R->cnt[N_F_CLOSE] = vk_stats.close_failed;
	R->cnt[N_F_ACCEPT_SOFT] = vk_stats.accept_soft;
	R->cnt[N_F_ALLOC] = (uint64_t)simalloc_failed;
	R->cnt[N_POLLS] = vk_stats.polls;
	R->cnt[N_BLOCKS] = vk_stats.blocks;
	R->nontrivial = (vk_stats.polls >= 2 &&
	    (R->cnt[N_RD_DONE] + R->cnt[N_WR_DONE] + R->cnt[N_NBR_OK] + R->cnt[N_CONN_OK] + R->cnt[N_CONN_FAIL] + R->cnt[N_ACC_OK] + R->cnt[N_NBW_WRITE] >= 2) &&
	    (vk_stats.recv_short + vk_stats.recv_eagain + vk_stats.recv_eintr + vk_stats.send_short + vk_stats.send_eagain + vk_stats.send_eintr +
	    vk_stats.poll_eintr + vk_stats.poll_spurious + vk_stats.accept_soft + R->cnt[N_CHAIN] + R->cnt[N_CANCEL] >= 1));
}
