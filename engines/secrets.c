/*
 * secrets.c -- engine for C19 (AWS Signature Version 4; narrow) and C20 (key
 * material is wiped; narrow, together with the DH part in engines/entropy.c).
 *
 * Real code: aws_sign.c aws_readkeys.c sha256.c sha1.c md5.c hexify.c
 * asprintf.c crypto_aes.c crypto_aesctr.c insecure_memzero.c.
 * Stubs: time(3) (simulated wall clock), fopen (scripted fopencookie stream),
 * allocator (failure injection, free hook that scans released blocks).
 */
#define _GNU_SOURCE
#include <errno.h>
#include <stdint.h>
#include <stdio.h>
#include <stdlib.h>
#include <string.h>
#include <time.h>

#include <openssl/aes.h>

#include "aws_readkeys.h"
#include "aws_sign.h"
#include "crypto_aes.h"
#include "crypto_aesctr.h"
#include "md5.h"
#include "sha1.h"
#include "sha256.h"

#include "sigv4_ref.h"
#include "sim.h"
#include "simalloc.h"

const char * engine_name = "secrets";
const char * const engine_props[] = { "C19", "C20", NULL };

enum {
	N_SIGN, N_SIGN_OK, N_SIGN_FAIL, N_V0, N_V1, N_V2, N_V3, N_TIME_READS, N_F_TIME, N_F_ALLOC, N_DAY_ROLL, N_SEC_ROLL,
	N_BODY_NULL, N_BODY_EMPTY, N_BODY_BIG, N_HASH, N_HASH_CTX_BYTES, N_AES, N_AESCTR, N_AESCTR_REUSE, N_READKEYS,
	N_RK_OK, N_RK_FAIL_AFTER_SECRET, N_F_STREAM_ERR, N_F_FCLOSE, N_F_SHORT, N_FREED_SCANNED, N_SECRET60, N_LEAKNOTE, N_AIMED,
	N_HASH_BIG
};
const char * const engine_counters[] = {
	"sign_calls", "sign_ok", "sign_failed", "variant_s3_headers", "variant_s3_querystr", "variant_svc_headers",
	"variant_dynamodb", "clock_reads", "fault_time_failed", "fault_alloc_failed", "probe_day_rolls_over_during_call",
	"probe_second_rolls_over_during_call", "probe_body_absent", "probe_body_empty", "probe_body_100k",
	"hash_computations", "hash_context_bytes_checked", "aes_key_expand_free", "aesctr_stream_free",
	"probe_aesctr_reinit", "readkeys_calls", "readkeys_ok", "probe_readkeys_failed_after_secret",
	"fault_stream_read_error", "fault_fclose_failed", "fault_stream_short_reads", "freed_blocks_scanned",
	"probe_secret_64_byte_hmac_key", "note_blocks_left_allocated_not_judged", "probe_formatted_length_aimed_at_1024",
	"probe_hash_context_with_high_counter_word_in_use", NULL
};

#define AF_SINCE(before) (simalloc_failed != (before))

static uint64_t
h64(uint64_t a, uint64_t b)
{
	uint64_t x = a * 0x9e3779b97f4a7c15ULL + b * 0xbf58476d1ce4e5b9ULL + 0x777;

	x ^= x >> 29;
	x *= 0x94d049bb133111ebULL;
	x ^= x >> 32;
	return (x);
}

/* ================= simulated wall clock ================= */
static int64_t wall_now, wall_tick;
static int time_fail_at = -1, time_reads_in_call;
static int64_t reads[8];

time_t
__wrap_time(time_t * t)
{
	time_t v;

	R->cnt[N_TIME_READS]++;
	if (time_reads_in_call == time_fail_at) {
		time_reads_in_call++;
		R->cnt[N_F_TIME]++;
		TR(0x61, 0, 0, "time() -> -1");
		errno = EOVERFLOW;
		if (t)
			*t = (time_t)(-1);
		return ((time_t)(-1));
	}
	v = (time_t)wall_now;
	if (time_reads_in_call < 8)
		reads[time_reads_in_call] = wall_now;
	time_reads_in_call++;
	TR(0x60, wall_now, 0, "time() -> %ld", (long)wall_now);
	wall_now += wall_tick;	/* the clock moves on between any two readings */
	if (t)
		*t = v;
	return (v);
}

/* ================= free hook: scan released blocks for secrets ================= */
#define NPAT 40
static uint8_t pat[NPAT][16];
static const char * patname[NPAT];
static int npat, hits;
static char hitname[48];

static void
free_hook(void * p, size_t n)
{
	int i;
	size_t o;

	if (npat == 0)
		return;
	R->cnt[N_FREED_SCANNED]++;
	for (i = 0; i < npat; i++)
		for (o = 0; o + 16 <= n; o++)
			if (((uint8_t *)p)[o] == pat[i][0] && memcmp((uint8_t *)p + o, pat[i], 16) == 0) {
				if (hits++ == 0)
					snprintf(hitname, sizeof(hitname), "%s", patname[i]);
				return;
			}
}

static void
add_pat(const uint8_t * p, const char * name)
{
	int seen[256] = { 0 }, d = 0, i;

	for (i = 0; i < 16; i++)
		if (!seen[p[i]]++)
			d++;
	if (d < 9 || npat >= NPAT)
		return;		/* not enough entropy: chance matches possible */
	memcpy(pat[npat], p, 16);
	patname[npat++] = name;
}

/* ================= C19: signing ================= */
static const char unres[] = "abcdefghijklmnopqrstuvwxyzABCDEFGHIJKLMNOPQRSTUVWXYZ0123456789-._~";
static const char printable[] = "abcdefghijklmnopqrstuvwxyzABCDEFGHIJKLMNOPQRSTUVWXYZ0123456789-._~!#$&'()*+,/:;=?@[]^`{|}<> \"";

static char *
mkstr(const char * alphabet, size_t len, uint64_t seed, char first)
{
	size_t n = strlen(alphabet), i;
	char * s = malloc(len + 2);

	for (i = 0; i < len; i++)
		s[i] = alphabet[h64(seed, i) % n];
	if (first && len > 0)
		s[0] = first;
	s[len] = 0;
	return (s);
}

static int
valid_datetime(const char * s)
{
	int i;

	if (strlen(s) != 16 || s[8] != 'T' || s[15] != 'Z')
		return (0);
	for (i = 0; i < 15; i++)
		if (i != 8 && (s[i] < '0' || s[i] > '9'))
			return (0);
	return (1);
}

static void
do_sign(const struct pline * l)
{
	int variant = (int)(l->a[0] < 0 ? -l->a[0] : l->a[0]) % 4;
	size_t idlen = (size_t)(l->a[1] < 0 ? 0 : l->a[1]) % 201, seclen = (size_t)(l->a[2] < 0 ? 0 : l->a[2]) % 5001;	/* (the property bounds the other strings at 200 characters, not the secret) */
	size_t reglen = (size_t)(l->a[3] < 0 ? 0 : l->a[3]) % 201, buclen = (size_t)(l->a[4] < 0 ? 0 : l->a[4]) % 201;
	size_t pathlen = (size_t)(l->a[5] < 0 ? 0 : l->a[5]) % 201;
	int bodykind = (int)(l->a[6] < 0 ? -l->a[6] : l->a[6]) % 3;	/* 0 absent 1 empty 2 bytes */
	size_t bodylen = (size_t)(l->a[7] < 0 ? 0 : l->a[7]) % 102401;
	uint64_t seed = (uint64_t)l->a[8];
	int expiry = (l->a[9] % 97 == 0) ? (int)2147483647 : (l->a[9] % 89 == 0) ? -(int)(l->a[9] % 1000) : (int)(l->a[9] % 1000000);
	int afk = l->nargs > 13 ? (int)l->a[13] : -1;
	int pooled = l->nargs > 14 && l->a[14] > 0;	/* scope components from a tiny pool: the same scope recurs with other secrets */
	char * key_id = mkstr(unres, idlen, seed + 1, 0), * secret = mkstr(printable, seclen, seed + 2, 0);
	char * region = pooled ? mkstr(unres, 9, (uint64_t)(l->a[14] % 2), 0) : mkstr(unres, reglen, seed + 3, 0);
	char * bucket = pooled ? mkstr(unres, 5, (uint64_t)(l->a[14] % 3), 0) : mkstr(unres, buclen, seed + 4, 0);
	char * path = mkstr(unres, pathlen, seed + 5, '/'), * op = mkstr(unres, buclen, seed + 6, 0);
	/* the method goes into the canonical request verbatim, whatever its case */
	static const char * const methods[] = { "GET", "PUT", "GET", "PUT", "POST", "DELETE", "HEAD", "get", "Patch", "method", "OPTIONS", "pUt" };
	const char * method = methods[(seed >> 1) % 12];
	int aim = (l->nargs > 14 && l->a[14] < 0) ? (int)(-l->a[14]) : 0;	/* aim a formatted string at a length around 1024 */
	uint8_t * body = NULL;
	char * sha = NULL, * date = NULL, * auth = NULL, * query = NULL;
	int rc, f0 = simalloc_failed;
	size_t live0, i;
	char want_hash[65], want_sig[65];
	struct { char * p; size_t n, cap; } cr = { NULL, 0, 0 };

	if (aim && (variant == 0 || variant == 1)) {
		/*
		 * Choose the lengths (all within the 0..200 the property quantifies over) so that the canonical request
		 * the library has to format is 1022..1026 characters long: a size at which a formatting routine with a
		 * fixed first-try buffer changes strategy.
		 */
		size_t target = 1024 + (size_t)(aim % 5) - 2, fixed0, need, parts, each;
		char num[32];

		snprintf(num, sizeof(num), "%d", expiry);
		if (variant == 1) {
			/* variable: key id, region, bucket, path */
			fixed0 = strlen(method) + 1 + 1 + strlen("X-Amz-Algorithm=AWS4-HMAC-SHA256&X-Amz-Credential=") + 3 + 8 + 3 + 3 + 2 +
			    strlen("%2Faws4_request&X-Amz-Date=") + 16 + strlen("&X-Amz-Expires=") + strlen(num) + strlen("&X-Amz-SignedHeaders=host") +
			    1 + strlen("host:") + strlen(".s3.amazonaws.com\n\nhost\nUNSIGNED-PAYLOAD");
			parts = 4;
		} else {
			/* variable: bucket, path (key id and region do not enter the canonical request) */
			fixed0 = strlen(method) + 1 + 1 + 1 + strlen("host:") + strlen(".s3.amazonaws.com\n") + strlen("x-amz-content-sha256:") + 64 + 1 +
			    strlen("x-amz-date:") + 16 + 1 + 1 + strlen("host;x-amz-content-sha256;x-amz-date\n") + 64;
			parts = 2;
		}
		need = target > fixed0 ? target - fixed0 : 0;
		if (need >= parts && need <= parts * 200) {
			each = need / parts;
			free(path);
			free(bucket);
			buclen = each;
			pathlen = need - each * (parts - 1);
			if (parts == 4) {
				free(key_id);
				free(region);
				idlen = reglen = each;
				key_id = mkstr(unres, idlen, seed + 1, 0);
				region = mkstr(unres, reglen, seed + 3, 0);
			}
			bucket = mkstr(unres, buclen, seed + 4, 0);
			path = mkstr(unres, pathlen, seed + 5, '/');
			R->cnt[N_AIMED]++;
		}
	}
	if (pooled) {
		wall_now = 1700000000 + (l->a[14] % 2) * 40;	/* the same UTC day again */
	} else if (l->a[10] >= 0) {
		/* place the clock just before an interesting boundary */
		static const int64_t bases[] = { 0, 86399, 951782399 /* 2000-02-28 23:59:59 */, 951868799 /* 2000-02-29 23:59:59 */,
		    1704067199 /* 2023-12-31 23:59:59 */, 2147483647, 1709251199 /* 2024-02-29 23:59:59 */, 1700000000, 59, 3599,
		    1735689599 /* 2024-12-31 23:59:59 */, 4102444799LL /* 2099-12-31 23:59:59 */ };

		wall_now = bases[l->a[10] % 12] - (l->a[10] / 12) % 3;
	} else
		wall_now = (int64_t)(h64(seed, 99) % 4000000000ULL);
	wall_tick = l->a[11] < 0 ? 0 : l->a[11] % 100000;
	time_fail_at = l->nargs > 12 ? (int)l->a[12] : -1;
	time_reads_in_call = 0;
	if (bodykind == 2) {
		body = malloc(bodylen + 1);
		for (i = 0; i < bodylen; i++)
			body[i] = (uint8_t)(h64(seed + 7, i) >> 11);
		if (bodylen >= 100000)
			R->cnt[N_BODY_BIG]++;
	} else if (bodykind == 1) {
		body = malloc(1);
		bodylen = 0;
		R->cnt[N_BODY_EMPTY]++;
	} else {
		bodylen = (size_t)(seed % 50);	/* must be ignored when the body is absent */
		R->cnt[N_BODY_NULL]++;
	}
	if (seclen == 60)
		R->cnt[N_SECRET60]++;
	R->cnt[N_SIGN]++;
	R->cnt[N_V0 + variant]++;
	if (wall_now < 0)
		wall_now = 0;
	live0 = simalloc_lib_live(NULL);
	simalloc_oneshot = afk;
	LIB_ENTER();
	switch (variant) {
	case 0:
		rc = aws_sign_s3_headers(key_id, secret, region, method, bucket, path, body, bodylen, &sha, &date, &auth);
		break;
	case 1:
		query = aws_sign_s3_querystr(key_id, secret, region, method, bucket, path, expiry);
		rc = query ? 0 : -1;
		break;
	case 2:
		rc = aws_sign_svc_headers(key_id, secret, region, bucket, body, bodylen, &sha, &date, &auth);
		break;
	default:
		rc = aws_sign_dynamodb_headers(key_id, secret, region, op, body, bodylen, &sha, &date, &auth);
		break;
	}
	LIB_LEAVE();
	simalloc_oneshot = -1;
	TR(0x10, variant, rc, "aws_sign variant %d (id %zu, secret %zu, region %zu, bucket/svc %zu, path %zu, body %s %zu) -> %d, %d clock reads",
	    variant, idlen, seclen, reglen, buclen, pathlen, bodykind == 0 ? "absent" : "present", bodylen, rc, time_reads_in_call);
	if (time_reads_in_call >= 2) {
		if (reads[0] / 86400 != reads[1] / 86400)
			R->cnt[N_DAY_ROLL]++;
		if (reads[0] != reads[1])
			R->cnt[N_SEC_ROLL]++;
	} else if (wall_tick > 0 && (reads[0] + wall_tick) / 86400 != reads[0] / 86400)
		R->cnt[N_DAY_ROLL]++;
	if (rc != 0) {
		R->cnt[N_SIGN_FAIL]++;
		if (!AF_SINCE(f0) && !(time_fail_at >= 0 && time_fail_at < time_reads_in_call))
			sim_viol("C19.failure-rc", "spurious", "signing failed although neither the clock nor an allocation failed");
		goto out;
	}
	R->cnt[N_SIGN_OK]++;
	/* content hash */
	if (variant != 1) {
		const char * dt = date;
		char scope[800], * cred, * sigp;
		const char * svc = variant == 0 ? "s3" : variant == 2 ? bucket : "dynamodb";

		sigv4_ref_sha256hex(body ? body : (const uint8_t *)"", bodykind == 0 ? 0 : bodylen, want_hash);	/* an absent body hashes as empty, whatever length was passed */
		if (strcmp(sha, want_hash) != 0)
			sim_viol("C19.hash", "hash", "x-amz-content-sha256 is not the SHA-256 of the body (%zu bytes, %s)", bodylen, bodykind == 0 ? "absent" : "present");
		if (!valid_datetime(dt))
			sim_viol("C19.scope-date", "timestamp-format", "x-amz-date \"%s\" is not yyyymmddThhmmssZ", dt);
		/* credential scope */
		snprintf(scope, sizeof(scope), "AWS4-HMAC-SHA256 Credential=%s/", key_id);
		if (strncmp(auth, scope, strlen(scope)) != 0)
			sim_viol("C19.signature", "credential", "Authorization does not start with the algorithm and the key id");
		cred = auth + strlen(scope);
		if (strncmp(cred, dt, 8) != 0 || cred[8] != '/')
			sim_viol("C19.scope-date", "scope-date", "credential scope date %.8s is not the date part of the returned timestamp %s", cred, dt);
		snprintf(scope, sizeof(scope), "%.8s/%s/%s/aws4_request,SignedHeaders=%s,Signature=", dt, region, svc,
		    variant == 3 ? "host;x-amz-content-sha256;x-amz-date;x-amz-target" : "host;x-amz-content-sha256;x-amz-date");
		if (strncmp(cred, scope, strlen(scope)) != 0)
			sim_viol("C19.signature", "scope", "credential scope / signed headers in Authorization are not as documented");
		sigp = cred + strlen(scope);
		/* canonical request as documented */
		cr.cap = 2000 + strlen(path) + strlen(bucket) + strlen(region) + strlen(op);
		cr.p = malloc(cr.cap);
		if (variant == 0)
			snprintf(cr.p, cr.cap, "%s\n%s\n\nhost:%s.s3.amazonaws.com\nx-amz-content-sha256:%s\nx-amz-date:%s\n\nhost;x-amz-content-sha256;x-amz-date\n%s",
			    method, path, bucket, want_hash, dt, want_hash);
		else if (variant == 2)
			snprintf(cr.p, cr.cap, "POST\n/\n\nhost:%s.%s.amazonaws.com\nx-amz-content-sha256:%s\nx-amz-date:%s\n\nhost;x-amz-content-sha256;x-amz-date\n%s",
			    bucket, region, want_hash, dt, want_hash);
		else
			snprintf(cr.p, cr.cap, "POST\n/\n\nhost:dynamodb.%s.amazonaws.com\nx-amz-content-sha256:%s\nx-amz-date:%s\nx-amz-target:DynamoDB_20120810.%s\n\nhost;x-amz-content-sha256;x-amz-date;x-amz-target\n%s",
			    region, want_hash, dt, op, want_hash);
		sigv4_ref_sign(secret, dt, region, svc, cr.p, strlen(cr.p), want_sig);
		if (strcmp(sigp, want_sig) != 0)
			sim_viol("C19.signature", "signature", "the signature in Authorization is not the Signature Version 4 signature of the documented request at %s (secret of %zu bytes)", dt, seclen);
	} else {
		char * dpos = strstr(query, "X-Amz-Date="), * cpos = strstr(query, "X-Amz-Credential="), * spos = strstr(query, "&X-Amz-Signature=");
		char dt[17], pre[1200], * qnosig;

		if (dpos == NULL || cpos == NULL || spos == NULL)
			sim_viol("C19.signature", "query-format", "query string lacks X-Amz-Date / X-Amz-Credential / X-Amz-Signature");
		snprintf(dt, sizeof(dt), "%.16s", dpos + strlen("X-Amz-Date="));
		if (!valid_datetime(dt))
			sim_viol("C19.scope-date", "timestamp-format", "X-Amz-Date \"%s\" is not yyyymmddThhmmssZ", dt);
		snprintf(pre, sizeof(pre), "X-Amz-Credential=%s%%2F", key_id);
		if (strncmp(cpos, pre, strlen(pre)) != 0)
			sim_viol("C19.signature", "credential", "X-Amz-Credential does not start with the key id");
		if (strncmp(cpos + strlen(pre), dt, 8) != 0)
			sim_viol("C19.scope-date", "scope-date", "credential scope date %.8s is not the date part of the returned timestamp %s", cpos + strlen(pre), dt);
		snprintf(pre, sizeof(pre), "X-Amz-Algorithm=AWS4-HMAC-SHA256&X-Amz-Credential=%s%%2F%.8s%%2F%s%%2Fs3%%2Faws4_request&X-Amz-Date=%s&X-Amz-Expires=%d&X-Amz-SignedHeaders=host",
		    key_id, dt, region, dt, expiry);
		qnosig = strndup(query, (size_t)(spos - query));
		if (strcmp(qnosig, pre) != 0)
			sim_viol("C19.signature", "query", "the query string (without the signature) is not as documented");
		cr.cap = 2000 + strlen(path) + strlen(bucket) + strlen(pre);
		cr.p = malloc(cr.cap);
		snprintf(cr.p, cr.cap, "%s\n%s\n%s\nhost:%s.s3.amazonaws.com\n\nhost\nUNSIGNED-PAYLOAD", method, path, pre, bucket);
		sigv4_ref_sign(secret, dt, region, "s3", cr.p, strlen(cr.p), want_sig);
		if (strcmp(spos + strlen("&X-Amz-Signature="), want_sig) != 0)
			sim_viol("C19.signature", "signature", "X-Amz-Signature is not the Signature Version 4 signature of the documented request at %s", dt);
		free(qnosig);
	}
out:
	/* the caller owns the returned strings */
	LIB_ENTER();
	if (rc == 0) {
		free(sha);
		free(date);
		free(auth);
		free(query);
	}
	LIB_LEAVE();
	if (simalloc_lib_live(NULL) != live0)
		R->cnt[N_LEAKNOTE]++;	/* not part of C19's statement: noted, not judged */
	free(cr.p);
	free(key_id);
	free(secret);
	free(region);
	free(bucket);
	free(path);
	free(op);
	free(body);
	time_fail_at = -1;
}

/* ================= C20: hash contexts ================= */
static void
check_zero(const void * ctx, size_t n, const char * what)
{
	const uint8_t * p = ctx;
	size_t i;

	R->cnt[N_HASH_CTX_BYTES] += n;
	for (i = 0; i < n; i++)
		if (p[i] != 0)
			sim_viol("C20.ctx-nonzero", what, "after %s_Final byte %zu of the context is 0x%02x, not zero", what, i, p[i]);
}

static void
do_hash(const struct pline * l)
{
	int alg = (int)(l->a[0] < 0 ? -l->a[0] : l->a[0]) % 6;
	size_t msglen = (size_t)(l->a[1] < 0 ? 0 : l->a[1]) % 5000, keylen = (size_t)(l->a[3] < 0 ? 0 : l->a[3]) % 200;
	int nupd = (int)((l->a[2] < 0 ? 0 : l->a[2]) % 6);
	int big = l->nargs > 5 && (l->a[5] & 1);
	uint64_t seed = (uint64_t)l->a[4];
	uint8_t * msg = malloc(msglen + 1), * key = malloc(keylen + 1), dig[32];
	size_t i, pos = 0;
	union { SHA256_CTX s256; HMAC_SHA256_CTX h256; SHA1_CTX s1; HMAC_SHA1_CTX h1; MD5_CTX m5; HMAC_MD5_CTX hm5; } c;

	for (i = 0; i < msglen; i++)
		msg[i] = (uint8_t)(h64(seed, i) >> 7);
	for (i = 0; i < keylen; i++)
		key[i] = (uint8_t)(h64(seed + 1, i) >> 7);
	memset(&c, 0xa5, sizeof(c));
	R->cnt[N_HASH]++;
	LIB_ENTER();
#define RUN(INIT, UPDATE, FINAL, FIELD, NAME, POKE) do {					\
		INIT;										\
		for (i = 0; i < (size_t)nupd; i++) {						\
			size_t n = (msglen - pos) / (size_t)(nupd - (int)i);			\
			UPDATE(&c.FIELD, msg + pos, n);						\
			pos += n;								\
		}										\
		UPDATE(&c.FIELD, msg + pos, msglen - pos);					\
		if (big) {									\
			/* the state of a context that has absorbed 512 MiB and more: high half of the bit counter in use */ \
			POKE;									\
			R->cnt[N_HASH_BIG]++;							\
		}										\
		FINAL(dig, &c.FIELD);								\
		check_zero(&c.FIELD, sizeof(c.FIELD), NAME);					\
	} while (0)
	switch (alg) {
#define HI64 ((uint64_t)0x01234567 << 32)
	case 0: RUN(SHA256_Init(&c.s256), SHA256_Update, SHA256_Final, s256, "SHA256", c.s256.count += HI64); break;
	case 1: RUN(HMAC_SHA256_Init(&c.h256, key, keylen), HMAC_SHA256_Update, HMAC_SHA256_Final, h256, "HMAC_SHA256",
	    (c.h256.ictx.count += HI64, c.h256.octx.count += HI64)); break;
	case 2: RUN(SHA1_Init(&c.s1), SHA1_Update, SHA1_Final, s1, "SHA1", c.s1.count[1] += 0x01234567); break;
	case 3: RUN(HMAC_SHA1_Init(&c.h1, key, keylen), HMAC_SHA1_Update, HMAC_SHA1_Final, h1, "HMAC_SHA1",
	    (c.h1.ictx.count[1] += 0x01234567, c.h1.octx.count[1] += 0x01234567)); break;
	case 4: RUN(MD5_Init(&c.m5), MD5_Update, MD5_Final, m5, "MD5", c.m5.count[1] += 0x01234567); break;
	default: RUN(HMAC_MD5_Init(&c.hm5, key, keylen), HMAC_MD5_Update, HMAC_MD5_Final, hm5, "HMAC_MD5",
	    (c.hm5.ictx.count[1] += 0x01234567, c.hm5.octx.count[1] += 0x01234567)); break;
	}
	LIB_LEAVE();
	sim_trh(0x20, (uint64_t)alg, dig[0]);
	NOTE("hash alg %d over %zu bytes in %d+1 updates: context zero after Final", alg, msglen, nupd);
	free(msg);
	free(key);
}

/* ================= C20: AES key and AES-CTR stream ================= */
static void
do_aes(const struct pline * l)
{
	size_t keylen = (l->a[0] & 1) ? 32 : 16;
	uint64_t seed = (uint64_t)l->a[1];
	size_t streamlen = (size_t)(l->a[2] < 0 ? 0 : l->a[2]) % 5000;
	int reuse = (int)((l->a[3] < 0 ? -l->a[3] : l->a[3]) % 4), afk = l->nargs > 4 ? (int)l->a[4] : -1;
	uint8_t key[32], sw[32], ks[16], blk[16], * buf;
	struct crypto_aes_key * K;
	struct crypto_aesctr * S;
	uint64_t nonce = h64(seed, 5);
	size_t i;
	AES_KEY ok;
	int f0 = simalloc_failed;

	for (i = 0; i < keylen; i++)
		key[i] = (uint8_t)(h64(seed, 100 + i) >> 9);
	for (i = 0; i < keylen; i++)
		sw[i] = key[(i & ~(size_t)3) + (3 - (i & 3))];	/* per-32-bit-word byte swap (OpenSSL's portable schedule) */
	simalloc_oneshot = afk;
	LIB_ENTER();
	K = crypto_aes_key_expand(key, keylen);
	LIB_LEAVE();
	simalloc_oneshot = -1;
	if (K == NULL) {
		if (!AF_SINCE(f0))
			sim_viol("C20.freed-secret", "expand-null", "crypto_aes_key_expand failed without an allocation failure");
		return;
	}
	buf = malloc(streamlen + 16);
	for (i = 0; i < streamlen; i++)
		buf[i] = (uint8_t)i;
	LIB_ENTER();
	S = crypto_aesctr_init(K, nonce);
	LIB_LEAVE();
	if (S != NULL) {
		uint64_t bc;

		LIB_ENTER();
		crypto_aesctr_stream(S, buf, buf, streamlen);
		if (reuse == 1) {
			nonce ^= 0x55;
			crypto_aesctr_init2(S, K, nonce);
			crypto_aesctr_stream(S, buf, buf, streamlen / 2 + 1);
			streamlen = streamlen / 2 + 1;
			R->cnt[N_AESCTR_REUSE]++;
		} else if (reuse >= 2) {
			/*
			 * re-initialised and then freed without (or with a zero-length) use: whatever the object still
			 * holds from its first use is as secret as before (patterns stay those of the first use)
			 */
			crypto_aesctr_init2(S, K, nonce ^ 0x55);
			if (reuse == 3)
				crypto_aesctr_stream(S, buf, buf, 0);
			R->cnt[N_AESCTR_REUSE]++;
		}
		LIB_LEAVE();
		/* the key-stream block(s) the stream object may be holding, computed independently */
		npat = 0;
		hits = 0;
		AES_set_encrypt_key(key, (int)keylen * 8, &ok);
		for (bc = streamlen / 16; ; bc--) {
			for (i = 0; i < 8; i++) {
				blk[i] = (uint8_t)(nonce >> (56 - 8 * i));
				blk[8 + i] = (uint8_t)(bc >> (56 - 8 * i));
			}
			AES_encrypt(blk, ks, &ok);
			if (streamlen > 0)
				add_pat(ks, "current AES-CTR key-stream block");
			if (bc == 0 || bc + 1 == streamlen / 16)
				break;
		}
		LIB_ENTER();
		crypto_aesctr_free(S);
		LIB_LEAVE();
		R->cnt[N_AESCTR]++;
		if (hits)
			sim_viol("C20.freed-secret", "aesctr", "the freed AES-CTR stream object still contained the %s", hitname);
	}
	npat = 0;
	hits = 0;
	add_pat(key, "AES key (start of the expanded key, raw byte order)");
	add_pat(sw, "AES key (start of the expanded key, word-swapped as in AES_KEY)");
	{
		/*
		 * Every round key of the schedule is key material (any one of them gives the key away): as OpenSSL's
		 * AES_KEY holds them in memory, and in FIPS-197 byte order as the AES-NI code holds them.  A wipe that
		 * covers only part of the object leaves some of them behind.
		 */
		int rounds = keylen == 16 ? 10 : 14, r, w;
		uint8_t img[16], raw[16];

		AES_set_encrypt_key(key, (int)keylen * 8, &ok);
		for (r = 1; r <= rounds; r++) {
			memcpy(img, (const uint8_t *)ok.rd_key + 16 * r, 16);
			for (w = 0; w < 16; w++)
				raw[w] = img[(w & ~3) + (3 - (w & 3))];
			add_pat(img, "a later AES round key (as in AES_KEY)");
			add_pat(raw, "a later AES round key (FIPS-197 byte order)");
		}
	}
	LIB_ENTER();
	crypto_aes_key_free(K);
	LIB_LEAVE();
	npat = 0;
	R->cnt[N_AES]++;
	TR(0x30, keylen, streamlen, "AES-%zu key expand/free, CTR stream of %zu bytes%s", keylen * 8, streamlen, reuse ? " (re-initialised)" : "");
	if (hits)
		sim_viol("C20.freed-secret", "aeskey", "the freed expanded AES key still contained the %s", hitname);
	free(buf);
}

/* ================= C20: key file reader ================= */
FILE * __real_fopen(const char *, const char *);
static struct { uint8_t * p; size_t n, pos, chunk; long err_after; int close_fail; } KF;

static ssize_t
kf_read(void * c, char * buf, size_t size)
{
	size_t n = KF.n - KF.pos;

	(void)c;
	if (KF.err_after >= 0 && (long)KF.pos >= KF.err_after) {
		static const int errs[] = { EIO, EINTR, EAGAIN, EIO, EINTR };

		R->cnt[N_F_STREAM_ERR]++;
		errno = errs[((size_t)KF.err_after + KF.n) % 5];	/* (an interrupted read is an error for stdio like any other) */
		return (-1);
	}
	if (n > size)
		n = size;
	if (KF.chunk > 0 && n > KF.chunk) {
		n = KF.chunk;
		R->cnt[N_F_SHORT]++;
	}
	if (KF.err_after >= 0 && KF.pos + n > (size_t)KF.err_after)
		n = (size_t)KF.err_after - KF.pos;
	memcpy(buf, KF.p + KF.pos, n);
	KF.pos += n;
	return ((ssize_t)n);
}

static int
kf_close(void * c)
{

	(void)c;
	if (KF.close_fail) {
		R->cnt[N_F_FCLOSE]++;
		errno = EIO;
		return (-1);
	}
	return (0);
}

FILE *
__wrap_fopen(const char * path, const char * mode)
{
	cookie_io_functions_t io = { kf_read, NULL, NULL, kf_close };
	int d = simalloc_depth;
	FILE * f;

	if (strcmp(path, "SIM:keyfile") != 0)
		return (__real_fopen(path, mode));
	if (KF.p == NULL) {
		errno = ENOENT;
		return (NULL);
	}
	simalloc_depth = 0;
	f = fopencookie(&KF, "r", io);
	simalloc_depth = d;
	return (f);
}

static void
do_readkeys(const struct pline * l)
{
	uint64_t seed = (uint64_t)l->a[0];
	int afk = l->nargs > 4 ? (int)l->a[4] : -1, i, rc, f0 = simalloc_failed;
	char * secret = mkstr(unres, 40 + (size_t)(seed % 30), seed + 11, 0), * id = mkstr(unres, 20, seed + 12, 0);
	char * key_id = (char *)0x1, * key_secret = (char *)0x1;
	struct { char * p; size_t n, cap; } b = { malloc(16384), 0, 16384 };
	int have_id = 0, have_secret = 0, bad = 0, secret_seen_before_failure = 0, dup = 0, noeol = 0;
	size_t live0;

	for (i = 0; i < l->ntok && b.n < 12000; i++) {
		int k = (int)(l->tok[i].v[0] < 0 ? -l->tok[i].v[0] : l->tok[i].v[0]) % 9;
		int last = (i == l->ntok - 1);
		int live = !(bad || dup || noeol);	/* the parser is still reading lines */

		switch (k) {
		case 0: case 6:
			b.n += (size_t)snprintf(b.p + b.n, b.cap - b.n, "ACCESS_KEY_ID=%s%s", id, k == 6 ? "\r\n" : "\n");
			if (live) {
				if (have_id)
					dup = 1;
				else
					have_id = 1;
			}
			break;
		case 1: case 5:
			b.n += (size_t)snprintf(b.p + b.n, b.cap - b.n, "ACCESS_KEY_SECRET=%s%s", secret, (k == 5 && last) ? "" : "\n");
			if (live) {
				if (k == 5 && last)
					noeol = 1;
				else if (have_secret)
					dup = 1;
				else
					have_secret = 1;
			}
			break;
		case 2:
			b.n += (size_t)snprintf(b.p + b.n, b.cap - b.n, "SOMETHING_ELSE=%s\n", id);
			if (live)
				bad = 1;
			break;
		case 3:
			b.n += (size_t)snprintf(b.p + b.n, b.cap - b.n, "no separator here\n");
			if (live)
				bad = 1;
			break;
		case 4:
			if (last) {
				b.n += (size_t)snprintf(b.p + b.n, b.cap - b.n, "ACCESS_KEY_ID=%s", id);	/* no EOL */
				if (live)
					noeol = 1;
			}
			break;
		case 7: {
			size_t n = 1100;

			memset(b.p + b.n, 'x', n);
			b.n += n;
			b.p[b.n++] = '\n';
			if (live)
				noeol = 1;	/* a 1023-character piece without EOL: reading stops here */
			break;
		}
		default:
			b.p[b.n++] = '\n';	/* empty line: no '=' */
			if (live)
				bad = 1;
			break;
		}
		if (live && have_secret && (bad || dup))
			secret_seen_before_failure = 1;
	}
	KF.p = (uint8_t *)b.p;
	KF.n = b.n;
	KF.pos = 0;
	KF.chunk = (size_t)(l->a[1] < 0 ? 0 : l->a[1]) % 64;
	KF.err_after = l->a[2] < 0 ? -1 : (long)(l->a[2] % (long)(b.n + 1));
	KF.close_fail = (int)(l->a[3] & 1);
	npat = 0;
	hits = 0;
	add_pat((uint8_t *)secret, "ACCESS_KEY_SECRET value");
	add_pat((uint8_t *)secret + 16, "ACCESS_KEY_SECRET value (bytes 16..31)");
	live0 = simalloc_lib_live(NULL);
	simalloc_oneshot = afk;
	R->cnt[N_READKEYS]++;
	LIB_ENTER();
	rc = aws_readkeys("SIM:keyfile", &key_id, &key_secret);
	LIB_LEAVE();
	simalloc_oneshot = -1;
	TR(0x40, b.n, rc, "aws_readkeys(%zu-byte file, chunk %zu, error after %ld, fclose %s) -> %d", b.n, KF.chunk, KF.err_after, KF.close_fail ? "fails" : "ok", rc);
	if (rc == 0) {
		R->cnt[N_RK_OK]++;
		npat = 0;
		LIB_ENTER();
		free(key_id);
		free(key_secret);
		LIB_LEAVE();
	} else {
		if (hits)
			sim_viol("C20.freed-secret", "readkeys", "a block released by the failed key-file read still contained the %s", hitname);
		if (secret_seen_before_failure || (have_secret && (KF.close_fail || !have_id || AF_SINCE(f0))))
			R->cnt[N_RK_FAIL_AFTER_SECRET]++;
	}
	npat = 0;
	if (simalloc_lib_live(NULL) != live0)
		R->cnt[N_LEAKNOTE]++;	/* a block that is never released is outside C20's statement: noted, not judged */
	KF.p = NULL;
	free(b.p);
	free(secret);
	free(id);
}

/* ================= generation ================= */
void
engine_gen(struct plan * P, uint64_t seed, struct prng * g)
{
	int c19 = !strcmp(sim_prop, "C19"), c20 = !strcmp(sim_prop, "C20");
	int n = 2 + (int)prng_n(g, 8), i;
	struct pline * l;

	(void)seed;
	plan_add(P, "knob", "tz", 1, (int64_t)(prng_chance(g, 40) ? 1 + prng_n(g, 4) : 0));
	for (i = 0; i < n; i++) {
		unsigned x = prng_n(g, 100);

		if (c19 || (!c20 && x < 50)) {
			static const int64_t lens[] = { 0, 1, 2, 20, 40, 59, 60, 61, 100, 200 };
			int faulty = prng_chance(g, 25);

			if (prng_chance(g, 6)) {
				/* secrets of unusual length: "AWS4" + secret around 1 KiB / 4 KiB, and far beyond the HMAC block size */
				static const int64_t sl[] = { 1018, 1019, 1020, 1021, 1022, 4090, 4091, 4092, 4093, 4094, 508, 2044, 250 };

				plan_add(P, "step", "sign", 15, (int64_t)prng_n(g, 4), (int64_t)(1 + prng_n(g, 30)), sl[prng_n(g, 13)], (int64_t)(1 + prng_n(g, 20)),
				    (int64_t)(1 + prng_n(g, 30)), (int64_t)(1 + prng_n(g, 60)), (int64_t)prng_n(g, 3), (int64_t)prng_n(g, 300), (int64_t)prng_n(g, 1000000000),
				    (int64_t)prng_n(g, 700000), (int64_t)-1, (int64_t)1, (int64_t)-1, (int64_t)-1, (int64_t)0);
				continue;
			}
			if (prng_chance(g, 10)) {
				plan_add(P, "step", "sign", 15, (int64_t)prng_n(g, 2), (int64_t)(1 + prng_n(g, 60)), (int64_t)(1 + prng_n(g, 60)), (int64_t)(1 + prng_n(g, 40)),
				    (int64_t)(1 + prng_n(g, 60)), (int64_t)1, (int64_t)prng_n(g, 3), (int64_t)prng_n(g, 300), (int64_t)prng_n(g, 1000000000),
				    (int64_t)prng_n(g, 700000), (int64_t)-1, (int64_t)1, (int64_t)-1, (int64_t)-1, (int64_t)-1 - (int64_t)prng_n(g, 10));
				continue;
			}
			if (prng_chance(g, 12)) {
				/* everything long: the strings the library formats are around a kilobyte */
				plan_add(P, "step", "sign", 15, (int64_t)prng_n(g, 4), (int64_t)(120 + prng_n(g, 81)), (int64_t)(120 + prng_n(g, 81)), (int64_t)(120 + prng_n(g, 81)),
				    (int64_t)(120 + prng_n(g, 81)), (int64_t)(120 + prng_n(g, 81)), (int64_t)prng_n(g, 3), (int64_t)prng_n(g, 300), (int64_t)prng_n(g, 1000000000),
				    (int64_t)prng_n(g, 700000), (int64_t)-1, (int64_t)1, (int64_t)-1, (int64_t)-1, (int64_t)0);
				continue;
			}

			plan_add(P, "step", "sign", 15, (int64_t)prng_n(g, 4), (prng_chance(g, 70) ? (int64_t)(1 + prng_n(g, 30)) : lens[prng_n(g, 10)]),
			    (prng_chance(g, 60) ? lens[prng_n(g, 10)] : (int64_t)prng_n(g, 201)), (prng_chance(g, 80) ? (int64_t)(1 + prng_n(g, 20)) : lens[prng_n(g, 10)]),
			    (prng_chance(g, 80) ? (int64_t)(1 + prng_n(g, 30)) : lens[prng_n(g, 10)]), (prng_chance(g, 80) ? (int64_t)(1 + prng_n(g, 60)) : lens[prng_n(g, 10)]),
			    (int64_t)prng_n(g, 3), (prng_chance(g, 10) ? (int64_t)(100000 + prng_n(g, 2400)) : (int64_t)prng_n(g, 3000)),
			    (int64_t)prng_n(g, 1000000000), (int64_t)prng_n(g, 700000),
			    (prng_chance(g, 60) ? (int64_t)prng_n(g, 36) : (int64_t)-1), (prng_chance(g, 70) ? (int64_t)(1 + prng_n(g, 3)) : (prng_chance(g, 50) ? (int64_t)0 : (int64_t)prng_n(g, 90000))),
			    (faulty && prng_chance(g, 30) ? (int64_t)prng_n(g, 2) : (int64_t)-1), (faulty && prng_chance(g, 70) ? (int64_t)prng_n(g, 8) : (int64_t)-1),
			    (prng_chance(g, 35) ? (int64_t)(1 + prng_n(g, 6)) : (int64_t)0));
		} else if (x < 70) {
			plan_add(P, "step", "hash", 6, (int64_t)prng_n(g, 6), (prng_chance(g, 50) ? (int64_t)prng_n(g, 200) : (int64_t)prng_n(g, 5000)), (int64_t)prng_n(g, 6),
			    (prng_chance(g, 50) ? (int64_t)(60 + prng_n(g, 10)) : (int64_t)prng_n(g, 200)), (int64_t)prng_n(g, 1000000), (int64_t)prng_chance(g, 12));
		} else if (x < 85) {
			plan_add(P, "step", "aes", 5, (int64_t)prng_n(g, 2), (int64_t)prng_n(g, 1000000), (prng_chance(g, 50) ? (int64_t)prng_n(g, 40) : (int64_t)prng_n(g, 5000)),
			    (int64_t)(prng_chance(g, 40) ? 1 + prng_n(g, 3) : 0), (prng_chance(g, 15) ? (int64_t)prng_n(g, 3) : (int64_t)-1));
		} else {
			int nl = 1 + (int)prng_n(g, 4), k;

			l = plan_add(P, "step", "readkeys", 5, (int64_t)prng_n(g, 1000000), (prng_chance(g, 40) ? (int64_t)(1 + prng_n(g, 40)) : (int64_t)0),
			    (prng_chance(g, 20) ? (int64_t)prng_n(g, 200) : (int64_t)-1), (int64_t)prng_chance(g, 15), (prng_chance(g, 25) ? (int64_t)prng_n(g, 3) : (int64_t)-1));
			/* bias: the secret line first, then something that makes the read fail */
			if (prng_chance(g, 60))
				pline_tok(l, 1, (int64_t)1);
			for (k = 0; k < nl; k++) {
				static const int kinds[] = { 0, 0, 0, 1, 1, 2, 3, 4, 5, 6, 7, 8 };

				pline_tok(l, 1, (int64_t)kinds[prng_n(g, 12)]);
			}
		}
	}
}

/* ================= execution ================= */
void
engine_zygote_init(void)
{
}

void
engine_run(const struct plan * P)
{
	int i, step = 0;

	simalloc_free_hook = free_hook;
	{
		/* the process may run in any time zone; signing is defined in UTC */
		static const char * const tzs[] = { NULL, "PST8PDT,M3.2.0,M11.1.0", "JST-9", "<+1245>-12:45", "UTC0" };
		int tz = (int)plan_knob(P, "tz", 0);

		if (tz > 0 && tz < 5) {
			setenv("TZ", tzs[tz], 1);
			tzset();
		}
	}
	for (i = 0; i < P->n; i++) {
		const struct pline * l = &P->l[i];

		if (strcmp(l->kind, "step"))
			continue;
		simalloc_step(step++);
		R->steps++;
		if (!strcmp(l->name, "sign") && l->nargs >= 12) {
			snprintf(R->crash_prop, sizeof(R->crash_prop), "C19");
			do_sign(l);
		} else if (!strcmp(l->name, "hash") && l->nargs >= 5) {
			snprintf(R->crash_prop, sizeof(R->crash_prop), "C20");
			do_hash(l);
		} else if (!strcmp(l->name, "aes") && l->nargs >= 4) {
			snprintf(R->crash_prop, sizeof(R->crash_prop), "C20");
			do_aes(l);
		} else if (!strcmp(l->name, "readkeys") && l->nargs >= 4) {
			snprintf(R->crash_prop, sizeof(R->crash_prop), "C20");
			do_readkeys(l);
		}
	}
	R->cnt[N_F_ALLOC] = (uint64_t)simalloc_failed;
	R->sim_ns = 0;
	R->nontrivial = (R->steps >= 2 && (R->cnt[N_TIME_READS] + R->cnt[N_FREED_SCANNED] >= 1));
}
