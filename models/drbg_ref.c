/* Reference HMAC_DRBG written from SP 800-90A section 10.1.2, using OpenSSL HMAC-SHA256 (not alg/sha256.c). */
#include <string.h>
#include <openssl/evp.h>
#include <openssl/hmac.h>
#include "drbg_ref.h"

static void
hmac3(const uint8_t K[32], const uint8_t * a, size_t alen, const uint8_t * b, size_t blen, const uint8_t * c, size_t clen,
    uint8_t out[32])
{
	uint8_t buf[33 + 64];
	unsigned int olen = 32;
	size_t n = 0;

	memcpy(buf + n, a, alen);
	n += alen;
	if (blen) {
		memcpy(buf + n, b, blen);
		n += blen;
	}
	if (clen) {
		memcpy(buf + n, c, clen);
		n += clen;
	}
	HMAC(EVP_sha256(), K, 32, buf, n, out, &olen);
}

static void
update(struct drbg_ref * D, const uint8_t * data, size_t len)
{
	uint8_t z = 0x00, o = 0x01;

	/* K = HMAC(K, V || 0x00 || provided_data); V = HMAC(K, V) */
	hmac3(D->K, D->V, 32, &z, 1, data, len, D->K);
	hmac3(D->K, D->V, 32, NULL, 0, NULL, 0, D->V);
	if (len == 0)
		return;
	hmac3(D->K, D->V, 32, &o, 1, data, len, D->K);
	hmac3(D->K, D->V, 32, NULL, 0, NULL, 0, D->V);
}

void
drbg_ref_instantiate(struct drbg_ref * D, const uint8_t * seed, size_t seedlen)
{

	memset(D->K, 0x00, 32);
	memset(D->V, 0x01, 32);
	update(D, seed, seedlen);
	D->reseed_counter = 1;
	D->instantiated = 1;
}

void
drbg_ref_reseed(struct drbg_ref * D, const uint8_t * seed, size_t seedlen)
{

	update(D, seed, seedlen);
	D->reseed_counter = 1;
}

/* The state update of 10.1.2.2 alone (used for the RDRAND build, which mixes 32 more bytes in after every (re)seed). */
void
drbg_ref_extra(struct drbg_ref * D, const uint8_t * data, size_t len)
{

	update(D, data, len);
}

void
drbg_ref_generate(struct drbg_ref * D, uint8_t * out, size_t len)
{
	size_t pos = 0;

	while (pos < len) {
		size_t n = len - pos < 32 ? len - pos : 32;

		hmac3(D->K, D->V, 32, NULL, 0, NULL, 0, D->V);
		memcpy(out + pos, D->V, n);
		pos += n;
	}
	update(D, NULL, 0);
	D->reseed_counter++;
}
