/* Independent reference: NIST SP 800-90A HMAC_DRBG (SHA-256, no personalisation, no additional input) on OpenSSL's HMAC. */
#ifndef DRBG_REF_H_
#define DRBG_REF_H_
#include <stddef.h>
#include <stdint.h>
struct drbg_ref { uint8_t K[32], V[32]; uint32_t reseed_counter; int instantiated; };
void drbg_ref_instantiate(struct drbg_ref *, const uint8_t * seed, size_t seedlen);
void drbg_ref_reseed(struct drbg_ref *, const uint8_t * seed, size_t seedlen);
void drbg_ref_extra(struct drbg_ref *, const uint8_t * data, size_t len);	/* state update only */
void drbg_ref_generate(struct drbg_ref *, uint8_t * out, size_t len);	/* one generate call, len <= 65536 */
#endif
