#include <stdio.h>
#include <stdlib.h>
#include <string.h>
#include <openssl/evp.h>
#include <openssl/hmac.h>
#include <openssl/sha.h>
#include "sigv4_ref.h"

static void
hex(const uint8_t * p, size_t n, char * out)
{
	static const char d[] = "0123456789abcdef";
	size_t i;

	for (i = 0; i < n; i++) {
		out[2 * i] = d[p[i] >> 4];
		out[2 * i + 1] = d[p[i] & 15];
	}
	out[2 * n] = 0;
}

void
sigv4_ref_sha256hex(const void * data, size_t len, char out[65])
{
	uint8_t h[32];
	unsigned int n = 32;

	EVP_Digest(data, len, h, &n, EVP_sha256(), NULL);
	hex(h, 32, out);
}

static void
hm(const void * key, size_t keylen, const void * msg, size_t msglen, uint8_t out[32])
{
	unsigned int n = 32;

	HMAC(EVP_sha256(), key, (int)keylen, msg, msglen, out, &n);
}

void
sigv4_ref_sign(const char * secret, const char * datetime, const char * region, const char * service,
    const char * creq, size_t creqlen, char out[65])
{
	char date[9], creqhex[65];
	size_t sl = strlen(secret);
	char * k0 = malloc(sl + 5), * sts;
	uint8_t kDate[32], kRegion[32], kService[32], kSigning[32], sig[32];
	size_t stslen;

	memcpy(date, datetime, 8);
	date[8] = 0;
	memcpy(k0, "AWS4", 4);
	memcpy(k0 + 4, secret, sl);
	hm(k0, sl + 4, date, 8, kDate);
	hm(kDate, 32, region, strlen(region), kRegion);
	hm(kRegion, 32, service, strlen(service), kService);
	hm(kService, 32, "aws4_request", 12, kSigning);
	sigv4_ref_sha256hex(creq, creqlen, creqhex);
	stslen = strlen(datetime) + strlen(region) + strlen(service) + 200;
	sts = malloc(stslen);
	snprintf(sts, stslen, "AWS4-HMAC-SHA256\n%s\n%s/%s/%s/aws4_request\n%s", datetime, date, region, service, creqhex);
	hm(kSigning, 32, sts, strlen(sts), sig);
	hex(sig, 32, out);
	free(k0);
	free(sts);
}
