/* Independent AWS Signature Version 4 (published algorithm) on OpenSSL HMAC/SHA-256. */
#ifndef SIGV4_REF_H_
#define SIGV4_REF_H_
#include <stddef.h>
#include <stdint.h>
void sigv4_ref_sha256hex(const void * data, size_t len, char out[65]);
/* signature = HEX(HMAC(kSigning, StringToSign)) for the canonical request `creq' at `datetime' (yyyymmddThhmmssZ). */
void sigv4_ref_sign(const char * secret, const char * datetime, const char * region, const char * service,
    const char * creq, size_t creqlen, char out[65]);
#endif
