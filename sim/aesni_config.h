/* CPUSUPPORT configuration for the hardware-AES build of the secrets engine (C20: both variants of crypto_aes_key_free). */
#define CPUSUPPORT_X86_CPUID 1
#define CPUSUPPORT_X86_CPUID_COUNT 1
#define CPUSUPPORT_X86_AESNI 1

