/* CPUSUPPORT configuration: the generator mixes RDRAND output into its state (the default on x86 builds). */
#define CPUSUPPORT_X86_CPUID 1
#define CPUSUPPORT_X86_CPUID_COUNT 1
#define CPUSUPPORT_X86_RDRAND 1
