/* CPUSUPPORT configuration: SHA-256 through the SHA-NI code (used at run time only if the CPU has SHA extensions). */
#define CPUSUPPORT_X86_CPUID 1
#define CPUSUPPORT_X86_CPUID_COUNT 1
#define CPUSUPPORT_X86_SHANI 1
#define CPUSUPPORT_X86_SSSE3 1
