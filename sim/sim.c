/*
 * sim.c -- plan handling, result record, fork-per-run batch runner, main().
 */
#define _GNU_SOURCE
#include <sys/mman.h>
#include <sys/stat.h>
#include <sys/time.h>
#include <sys/wait.h>

#include <errno.h>
#include <fcntl.h>
#include <inttypes.h>
#include <signal.h>
#include <stdarg.h>
#include <stdlib.h>
#include <string.h>
#include <time.h>
#include <unistd.h>

#include "sim.h"

#ifdef SIM_COVERAGE
/* coverage build only (driver `cov`): every run writes its own raw profile; the driver merges them */
extern int __llvm_profile_write_file(void);
extern void __llvm_profile_set_filename(const char *);
static void
cov_flush(void)
{
	static char fn[512];
	const char * pre = getenv("SIM_COV_PREFIX");

	if (pre == NULL)
		return;
	snprintf(fn, sizeof(fn), "%s.%d.profraw", pre, (int)getpid());
	__llvm_profile_set_filename(fn);
	(void)__llvm_profile_write_file();
}
#define COV_FLUSH() cov_flush()
#else
#define COV_FLUSH() ((void)0)
#endif

/* ================= PRNG ================= */
static uint64_t
mix64(uint64_t z)
{

	z = (z ^ (z >> 30)) * 0xbf58476d1ce4e5b9ULL;
	z = (z ^ (z >> 27)) * 0x94d049bb133111ebULL;
	return (z ^ (z >> 31));
}

void
prng_seed(struct prng * p, uint64_t seed, uint64_t stream)
{

	p->s = mix64(seed + 0x9e3779b97f4a7c15ULL) ^ mix64(stream * 0xd1342543de82ef95ULL + 1);
}

uint64_t
prng_u64(struct prng * p)
{

	p->s += 0x9e3779b97f4a7c15ULL;
	return (mix64(p->s));
}

uint32_t
prng_n(struct prng * p, uint32_t n)
{

	return ((uint32_t)(prng_u64(p) % n));
}

int
prng_chance(struct prng * p, unsigned pct)
{

	return (prng_n(p, 100) < pct);
}

int64_t
prng_range(struct prng * p, int64_t lo, int64_t hi)
{

	if (hi <= lo)
		return (lo);
	return (lo + (int64_t)(prng_u64(p) % (uint64_t)(hi - lo + 1)));
}

/* ================= plans ================= */
void
plan_init(struct plan * P)
{

	P->n = P->cap = 0;
	P->l = NULL;
}

static struct pline *
plan_newline(struct plan * P)
{
	struct pline * l;

	if (P->n == P->cap) {
		P->cap = P->cap ? P->cap * 2 : 64;
		P->l = realloc(P->l, (size_t)P->cap * sizeof(struct pline));
		if (P->l == NULL)
			abort();
	}
	l = &P->l[P->n++];
	memset(l, 0, sizeof(*l));
	return (l);
}

struct pline *
plan_add(struct plan * P, const char * kind, const char * name, int nargs, ...)
{
	struct pline * l = plan_newline(P);
	va_list ap;
	int i;

	snprintf(l->kind, sizeof(l->kind), "%s", kind);
	snprintf(l->name, sizeof(l->name), "%s", name);
	l->nargs = nargs;
	va_start(ap, nargs);
	for (i = 0; i < nargs && i < PL_MAXARGS; i++)
		l->a[i] = va_arg(ap, int64_t);
	va_end(ap);
	return (l);
}

void
pline_tokv(struct pline * l, int n, const int64_t * v)
{
	int i;

	if (l->ntok == l->tokcap) {
		l->tokcap = l->tokcap ? l->tokcap * 2 : 8;
		l->tok = realloc(l->tok, (size_t)l->tokcap * sizeof(struct tok));
		if (l->tok == NULL)
			abort();
	}
	if (n > TOK_MAXV)
		n = TOK_MAXV;
	l->tok[l->ntok].n = n;
	for (i = 0; i < n; i++)
		l->tok[l->ntok].v[i] = v[i];
	l->ntok++;
}

void
pline_tok(struct pline * l, int n, ...)
{
	int64_t v[TOK_MAXV];
	va_list ap;
	int i;

	va_start(ap, n);
	for (i = 0; i < n && i < TOK_MAXV; i++)
		v[i] = va_arg(ap, int64_t);
	va_end(ap);
	pline_tokv(l, n, v);
}

void
plan_print(const struct plan * P, FILE * f)
{
	int i, j, k;

	for (i = 0; i < P->n; i++) {
		const struct pline * l = &P->l[i];

		fprintf(f, "%s %s", l->kind, l->name);
		for (j = 0; j < l->nargs; j++)
			fprintf(f, " %" PRId64, l->a[j]);
		if (l->ntok) {
			fprintf(f, " |");
			for (j = 0; j < l->ntok; j++) {
				fputc(' ', f);
				for (k = 0; k < l->tok[j].n; k++)
					fprintf(f, "%s%" PRId64, k ? "," : "", l->tok[j].v[k]);
			}
		}
		fputc('\n', f);
	}
}

int
plan_parse(struct plan * P, FILE * f)
{
	char * line = NULL;
	size_t cap = 0;
	ssize_t len;

	while ((len = getline(&line, &cap, f)) >= 0) {
		char * s = line, * w, * save = NULL;
		struct pline * l;
		int intape = 0;

		while (*s == ' ' || *s == '\t')
			s++;
		if (*s == '#' || *s == '\n' || *s == '\0')
			continue;
		l = plan_newline(P);
		w = strtok_r(s, " \t\n", &save);
		snprintf(l->kind, sizeof(l->kind), "%s", w ? w : "");
		w = strtok_r(NULL, " \t\n", &save);
		snprintf(l->name, sizeof(l->name), "%s", w ? w : "");
		while ((w = strtok_r(NULL, " \t\n", &save)) != NULL) {
			if (!strcmp(w, "|")) {
				intape = 1;
				continue;
			}
			if (!intape) {
				if (l->nargs < PL_MAXARGS)
					l->a[l->nargs++] = strtoll(w, NULL, 10);
			} else {
				int64_t v[TOK_MAXV];
				int n = 0;
				char * q = w;

				while (*q && n < TOK_MAXV) {
					v[n++] = strtoll(q, &q, 10);
					if (*q == ',')
						q++;
					else
						break;
				}
				pline_tokv(l, n, v);
			}
		}
	}
	free(line);
	return (0);
}

int64_t
plan_knob(const struct plan * P, const char * name, int64_t dflt)
{
	int i;

	for (i = 0; i < P->n; i++)
		if (!strcmp(P->l[i].kind, "knob") && !strcmp(P->l[i].name, name) &&
		    P->l[i].nargs >= 1)
			return (P->l[i].a[0]);
	return (dflt);
}

const struct pline *
plan_find(const struct plan * P, const char * kind, const char * name)
{
	int i;

	for (i = 0; i < P->n; i++)
		if (!strcmp(P->l[i].kind, kind) && !strcmp(P->l[i].name, name))
			return (&P->l[i]);
	return (NULL);
}

/* ================= record, trace, violations ================= */
struct rec * R;
int sim_verbose;
const char * sim_prop = "";
int sim_c14;
int sim_af_step = -1, sim_af_k = -1, sim_af_persist = 0;
static uint64_t thash = 1469598103934665603ULL;

void
sim_trh(uint64_t code, uint64_t a, uint64_t b)
{

	thash = (thash ^ code) * 1099511628211ULL;
	thash = (thash ^ a) * 1099511628211ULL;
	thash = (thash ^ b) * 1099511628211ULL;
	thash ^= thash >> 29;
}

int
sim_selected(const char * oracle)
{
	size_t n = strlen(sim_prop);

	if (n == 0)
		return (1);
	return (strncmp(oracle, sim_prop, n) == 0 && (oracle[n] == '.' || oracle[n] == '\0'));
}

void
sim_viol(const char * oracle, const char * sig, const char * fmt, ...)
{
	va_list ap;

	if (!sim_selected(oracle) && sim_c14 && R->af_fired && R->foreign == 0) {
		/*
		 * C14: after an injected allocation failure the objects must be
		 * unchanged and keep refining their models, and nothing may be
		 * registered for a failed registration: any model oracle that
		 * fires now contradicts C14.
		 */
		static char o2[40], s2[96];

		snprintf(s2, sizeof(s2), "%s:%s", oracle, sig ? sig : "");
		snprintf(o2, sizeof(o2), "C14.model");
		R->status = 1;
		snprintf(R->oracle, sizeof(R->oracle), "%s", o2);
		snprintf(R->sig, sizeof(R->sig), "%s", s2);
		va_start(ap, fmt);
		vsnprintf(R->msg, sizeof(R->msg), fmt, ap);
		va_end(ap);
		R->hash = thash;
		if (sim_verbose)
			fprintf(stderr, "VIOLATED %s [%s] (after an injected allocation failure): %s\n", R->oracle, R->sig, R->msg);
		COV_FLUSH();
		_exit(10);
	}
	if (!sim_selected(oracle)) {
		if (R->foreign++ == 0)
			snprintf(R->foreign_first, sizeof(R->foreign_first), "%s", oracle);
		if (sim_verbose) {
			fprintf(stderr, "  (other property) %s: ", oracle);
			va_start(ap, fmt);
			vfprintf(stderr, fmt, ap);
			va_end(ap);
			fputc('\n', stderr);
		}
		return;
	}
	R->status = 1;
	snprintf(R->oracle, sizeof(R->oracle), "%s", oracle);
	snprintf(R->sig, sizeof(R->sig), "%s", sig ? sig : "");
	va_start(ap, fmt);
	vsnprintf(R->msg, sizeof(R->msg), fmt, ap);
	va_end(ap);
	R->hash = thash;
	if (sim_verbose)
		fprintf(stderr, "VIOLATED %s [%s]: %s\n", R->oracle, R->sig, R->msg);
	COV_FLUSH();
	_exit(10);
}

void
sim_internal(const char * fmt, ...)
{
	va_list ap;

	R->status = 2;
	snprintf(R->oracle, sizeof(R->oracle), "internal");
	va_start(ap, fmt);
	vsnprintf(R->msg, sizeof(R->msg), fmt, ap);
	va_end(ap);
	R->hash = thash;
	if (sim_verbose)
		fprintf(stderr, "INTERNAL: %s\n", R->msg);
	COV_FLUSH();
	_exit(12);
}

void
sim_finish(void)
{

	R->done = 1;
	R->hash = thash;
	COV_FLUSH();
	_exit(0);
}

/* ASan/UBSan options for every child. */
__attribute__((used, visibility("default"))) const char *
__asan_default_options(void)
{

	return ("exitcode=77:detect_leaks=0:abort_on_error=0:allocator_may_return_null=1:"
	    "handle_abort=0:detect_stack_use_after_return=0:malloc_context_size=8");
}

__attribute__((used, visibility("default"))) const char *
__ubsan_default_options(void)
{

	return ("print_stacktrace=1:halt_on_error=1:exitcode=77");
}

/* ================= JSON helpers ================= */
static void
jstr(FILE * f, const char * s)
{

	fputc('"', f);
	for (; *s; s++) {
		unsigned char c = (unsigned char)*s;

		if (c == '"' || c == '\\')
			fprintf(f, "\\%c", c);
		else if (c == '\n')
			fputs("\\n", f);
		else if (c < 0x20 || c >= 0x7f)
			fprintf(f, "\\u%04x", c);
		else
			fputc(c, f);
	}
	fputc('"', f);
}

/* ================= running one plan in a child ================= */
struct outcome {
	int kind;	/* 0 held, 1 violation, 2 internal, 3 crash (sanitizer/abort/signal), 4 hang */
	char oracle[40];
	char sig[160];
	char msg[600];
};

static int errfd = -1;

static void
err_reset(void)
{

	if (errfd >= 0) {
		if (ftruncate(errfd, 0)) {
		}
		lseek(errfd, 0, SEEK_SET);
	}
}

/* Extract a short signature of a crash from the captured stderr. */
static void
crash_sig(struct outcome * o, int st)
{
	char buf[16384];
	ssize_t n = 0;
	char * p, * q;

	buf[0] = 0;
	if (errfd >= 0) {
		lseek(errfd, 0, SEEK_SET);
		n = read(errfd, buf, sizeof(buf) - 1);
		if (n < 0)
			n = 0;
		buf[n] = 0;
	}
	o->sig[0] = o->msg[0] = 0;
	if ((p = strstr(buf, "Assertion")) != NULL) {
		/* prog: file.c:LINE: func: Assertion `expr' failed. */
		char * ls = p;
		char func[64] = "?";
		char * c1, * par;

		while (ls > buf && ls[-1] != '\n')
			ls--;
		/* "prog: file.c:LINE: <pretty function>: Assertion": take the identifier before '(' */
		c1 = p - 2;
		if (c1 > ls) {
			*c1 = 0;
			par = strrchr(ls, '(');
			if (par != NULL) {
				/* pretty function may contain "(*)(" in its parameter list: use the first '(' after the file:line part */
				char * fl = strstr(ls, ".c:");
				char * st = fl ? strchr(fl + 3, ' ') : ls;

				par = st ? strchr(st, '(') : NULL;
			}
			if (par != NULL) {
				char * fs = par;
				size_t l;

				while (fs > ls && (fs[-1] == '_' || (fs[-1] >= '0' && fs[-1] <= '9') ||
				    (fs[-1] >= 'a' && fs[-1] <= 'z') || (fs[-1] >= 'A' && fs[-1] <= 'Z')))
					fs--;
				l = (size_t)(par - fs);
				if (l >= sizeof(func))
					l = sizeof(func) - 1;
				memcpy(func, fs, l);
				func[l] = 0;
			}
		}
		{
			char expr[100] = "";

		if ((q = strchr(p, '`')) != NULL || (q = strchr(p, '\'')) != NULL) {
			char * e = strstr(q + 1, "' failed");

			if (e != NULL) {
				size_t l = (size_t)(e - (q + 1));

				if (l >= sizeof(expr))
					l = sizeof(expr) - 1;
				memcpy(expr, q + 1, l);
				expr[l] = 0;
			}
		}
		snprintf(o->sig, sizeof(o->sig), "assert:%s:%s", func, expr);
		snprintf(o->msg, sizeof(o->msg), "assertion failed in %s: %s", func, expr);
		}
	} else if ((p = strstr(buf, "ERROR: AddressSanitizer: ")) != NULL) {
		char kind[64];
		const char * rw = "";

		p += strlen("ERROR: AddressSanitizer: ");
		snprintf(kind, sizeof(kind), "%.*s", (int)strcspn(p, " \n"), p);
		if (strstr(p, "READ of size") != NULL)
			rw = ":READ";
		else if (strstr(p, "WRITE of size") != NULL)
			rw = ":WRITE";
		snprintf(o->sig, sizeof(o->sig), "asan:%s%s", kind, rw);
		snprintf(o->msg, sizeof(o->msg), "AddressSanitizer: %s%s", kind, rw);
	} else if ((p = strstr(buf, "runtime error: ")) != NULL) {
		snprintf(o->msg, sizeof(o->msg), "UBSan: %.*s", (int)strcspn(p, "\n"), p);
		snprintf(o->sig, sizeof(o->sig), "ubsan:%.60s", p + strlen("runtime error: "));
		if ((q = strchr(o->sig, '\n')) != NULL)
			*q = 0;
	} else if (WIFSIGNALED(st)) {
		snprintf(o->sig, sizeof(o->sig), "signal:%d", WTERMSIG(st));
		snprintf(o->msg, sizeof(o->msg), "child killed by signal %d", WTERMSIG(st));
	} else {
		snprintf(o->sig, sizeof(o->sig), "exit:%d", WEXITSTATUS(st));
		snprintf(o->msg, sizeof(o->msg), "child exited with status %d", WEXITSTATUS(st));
	}
}

static void
sig_normalise(char * s)
{

	for (; *s; s++)
		if (*s == ' ' || *s == '\t')
			*s = '_';
}

static void
run_child(const struct plan * P, uint64_t seed, int fromseed)
{
	struct plan Q;
	struct prng g;

	alarm(20);
	if (errfd >= 0) {
		dup2(errfd, 2);
	}
	if (fromseed) {
		plan_init(&Q);
		prng_seed(&g, seed, 0);
		engine_gen(&Q, seed, &g);
		P = &Q;
	}
	engine_run(P);
	sim_finish();
}

static void
run_one(const struct plan * P, uint64_t seed, int fromseed, struct outcome * o)
{
	pid_t pid;
	int st;

	memset(R, 0, sizeof(*R));
	memset(o, 0, sizeof(*o));
	err_reset();
	fflush(NULL);
	pid = fork();
	if (pid < 0) {
		perror("fork");
		exit(2);
	}
	if (pid == 0)
		run_child(P, seed, fromseed);
	while (waitpid(pid, &st, 0) < 0) {
		if (errno != EINTR) {
			perror("waitpid");
			exit(2);
		}
	}
	if (WIFEXITED(st) && WEXITSTATUS(st) == 0 && R->done) {
		o->kind = 0;
	} else if (WIFEXITED(st) && WEXITSTATUS(st) == 10 && R->status == 1) {
		o->kind = 1;
		snprintf(o->oracle, sizeof(o->oracle), "%s", R->oracle);
		snprintf(o->sig, sizeof(o->sig), "%s", R->sig);
		snprintf(o->msg, sizeof(o->msg), "%s", R->msg);
	} else if (WIFEXITED(st) && WEXITSTATUS(st) == 12 && R->status == 2) {
		o->kind = 2;
		snprintf(o->oracle, sizeof(o->oracle), "internal");
		snprintf(o->msg, sizeof(o->msg), "%s", R->msg);
	} else if (WIFSIGNALED(st) && WTERMSIG(st) == SIGALRM) {
		o->kind = 4;
		snprintf(o->oracle, sizeof(o->oracle), "%s.hang", sim_prop);
		snprintf(o->sig, sizeof(o->sig), "hang");
		snprintf(o->msg, sizeof(o->msg), "run did not finish within the wall-clock cap");
	} else {
		o->kind = 3;
		snprintf(o->oracle, sizeof(o->oracle), "%s.crash", sim_prop);
		crash_sig(o, st);
		sig_normalise(o->sig);
	}
	if (o->kind == 3 || o->kind == 4) {
		/* Which property does a crash of this run contradict? */
		int mine = 1;

		R->crash_prop[sizeof(R->crash_prop) - 1] = 0;
		if (sim_c14)
			mine = R->af_fired;
		else if (R->crash_prop[0] != 0 && sim_prop[0] != 0 && strcmp(R->crash_prop, sim_prop) != 0)
			mine = 0;
		if (!mine) {
			o->kind = 0;
			R->foreign++;
			snprintf(R->foreign_first, sizeof(R->foreign_first), "%s.crash", R->crash_prop);
		}
	}
}

static void
print_outcome(FILE * f, const char * tag, uint64_t seed, const struct outcome * o)
{
	int i;

	fprintf(f, "{\"t\":\"%s\",\"seed\":%" PRIu64 ",\"kind\":%d,\"af\":[%d,%d,%d],\"oracle\":",
	    tag, seed, o->kind, sim_af_step, sim_af_k, sim_af_persist);
	jstr(f, o->oracle);
	fprintf(f, ",\"sig\":");
	jstr(f, o->sig);
	fprintf(f, ",\"msg\":");
	jstr(f, o->msg);
	fprintf(f, ",\"hash\":\"%016" PRIx64 "\",\"steps\":%u,\"sim_ns\":%" PRIu64 ",\"nontrivial\":%d,\"foreign\":%u,\"foreign_first\":",
	    R->hash, R->steps, R->sim_ns, R->nontrivial, R->foreign);
	jstr(f, R->foreign_first);
	fprintf(f, ",\"out\":");
	R->out[sizeof(R->out) - 1] = 0;
	jstr(f, R->out);
	fprintf(f, ",\"cnt\":{");
	for (i = 0; engine_counters[i] != NULL && i < REC_NCNT; i++)
		fprintf(f, "%s\"%s\":%" PRIu64, i ? "," : "", engine_counters[i], R->cnt[i]);
	fprintf(f, "},\"nalloc\":[");
	for (i = 0; i < R->nstep_alloc && i < REC_NSTEP; i++)
		fprintf(f, "%s%u", i ? "," : "", R->nalloc[i]);
	fprintf(f, "]}\n");
}

/* ================= batch ================= */
struct totals {
	uint64_t runs, held, viol, crash, internal, hang, foreign, steps, nontrivial;
	double sim_ns;
	uint64_t cnt[REC_NCNT];
	uint64_t af_points, c14_skipped;
};

static void
account(struct totals * T, const struct outcome * o, FILE * hf)
{
	int i;
	uint64_t h;

	T->runs++;
	switch (o->kind) {
	case 0: T->held++; break;
	case 1: T->viol++; break;
	case 2: T->internal++; break;
	case 3: T->crash++; break;
	case 4: T->hang++; break;
	}
	T->foreign += R->foreign;
	T->sim_ns += (double)R->sim_ns;
	T->steps += R->steps;
	T->nontrivial += (uint64_t)(R->nontrivial != 0);
	for (i = 0; i < REC_NCNT; i++)
		T->cnt[i] += R->cnt[i];
	if (hf != NULL && (o->kind == 0 || o->kind == 1)) {
		h = (R->hash & ~(uint64_t)1) | (uint64_t)(R->nontrivial != 0);
		fwrite(&h, sizeof(h), 1, hf);
	}
}

/* Wall time spent inside runs that ended in a violation, crash or hang (flood control only; never part of a verdict). */
static double bad_wall_s;

static void
run_one_timed(const struct plan * P, uint64_t seed, int fromseed, struct outcome * o)
{
	struct timeval a, b;

	gettimeofday(&a, NULL);
	run_one(P, seed, fromseed, o);
	gettimeofday(&b, NULL);
	if (o->kind != 0)
		bad_wall_s += (double)(b.tv_sec - a.tv_sec) + (double)(b.tv_usec - a.tv_usec) / 1e6;
}

struct clsrec { char key[140]; int n; };

static int
should_report(void * tab, int * n, const struct outcome * o, int cap)
{
	struct clsrec * c = tab;
	char key[140];
	int i;

	snprintf(key, sizeof(key), "%d|%.39s|%.90s", o->kind, o->oracle, o->sig);
	for (i = 0; i < *n; i++)
		if (!strcmp(c[i].key, key))
			return (c[i].n++ < cap);
	if (*n >= 128)
		return (0);
	snprintf(c[*n].key, sizeof(c[*n].key), "%s", key);
	c[*n].n = 1;
	(*n)++;
	return (1);
}

static int
batch(uint64_t first, uint64_t count, const char * prefix, int maxreport)
{
	struct totals T;
	struct outcome o;
	char path[600];
	FILE * jf, * hf, * of;
	uint64_t s;
	int i;
	/* report cap per violation class, so that a frequent (e.g. known) class cannot hide a rare new one */
	struct { char key[140]; int n; } cls[128];
	int ncls = 0;
#define SHOULD_REPORT(o) should_report(cls, &ncls, (o), maxreport)
	struct timeval t0, t1;

	memset(&T, 0, sizeof(T));
	snprintf(path, sizeof(path), "%s.jsonl", prefix);
	if ((jf = fopen(path, "w")) == NULL) {
		perror(path);
		return (2);
	}
	snprintf(path, sizeof(path), "%s.hash", prefix);
	if ((hf = fopen(path, "w")) == NULL) {
		perror(path);
		return (2);
	}
	snprintf(path, sizeof(path), "%s.out", prefix);
	if ((of = fopen(path, "w")) == NULL) {
		perror(path);
		return (2);
	}
	errfd = memfd_create("verif-err", 0);
	gettimeofday(&t0, NULL);
	for (s = first; s < first + count; s++) {
		if (T.viol + T.crash + T.hang > 1500 || T.hang >= 6 || bad_wall_s > 100.0)
			break;		/* flooded (or minutes spent in failing runs): the verdict is clear, stop early */
		sim_af_step = sim_af_k = -1;
		sim_af_persist = 0;
		run_one_timed(NULL, s, 1, &o);
		account(&T, &o, hf);
		if (o.kind != 0) {
			if (SHOULD_REPORT(&o))
				print_outcome(jf, "v", s, &o);
			continue;
		}
		R->out[sizeof(R->out) - 1] = 0;
		if (R->out[0] != 0)
			fprintf(of, "%" PRIu64 "\t%s\n", s, R->out);
		if (sim_c14 && R->foreign > 0) {
			/* the history contradicts another property even without a failure: its models are not a reference */
			T.c14_skipped++;
			continue;
		}
		if (sim_c14) {
			/* Enumerate every allocation-failure point of this plan. */
			struct rec base = *R;
			int j, k, p;

			for (j = 0; j < base.nstep_alloc && j < REC_NSTEP; j++) {
				int nk = base.nalloc[j];

				for (k = 0; k < nk && T.hang < 6 && bad_wall_s <= 100.0; k++) {
					/* all k when few; seeded-independent stride sample when many */
					if (nk > 64 && k >= 48 && (k % ((nk + 15) / 16)) != 0 && k != nk - 1)
						continue;
					for (p = 0; p < 2; p++) {
						sim_af_step = j;
						sim_af_k = k;
						sim_af_persist = p;
						run_one_timed(NULL, s, 1, &o);
						account(&T, &o, hf);
						T.af_points++;
						if (o.kind != 0 && SHOULD_REPORT(&o))
							print_outcome(jf, "v", s, &o);
					}
				}
			}
		}
	}
	gettimeofday(&t1, NULL);
	fprintf(jf, "{\"t\":\"summary\",\"first\":%" PRIu64 ",\"count\":%" PRIu64 ",\"runs\":%" PRIu64
	    ",\"held\":%" PRIu64 ",\"viol\":%" PRIu64 ",\"crash\":%" PRIu64 ",\"internal\":%" PRIu64
	    ",\"hang\":%" PRIu64 ",\"foreign\":%" PRIu64 ",\"sim_ns\":%.0f,\"steps\":%" PRIu64
	    ",\"nontrivial\":%" PRIu64 ",\"af_points\":%" PRIu64 ",\"c14_skipped\":%" PRIu64 ",\"wall_s\":%.3f,\"cnt\":{",
	    first, count, T.runs, T.held, T.viol, T.crash, T.internal, T.hang, T.foreign, T.sim_ns,
	    T.steps, T.nontrivial, T.af_points, T.c14_skipped,
	    (double)(t1.tv_sec - t0.tv_sec) + (double)(t1.tv_usec - t0.tv_usec) / 1e6);
	for (i = 0; engine_counters[i] != NULL && i < REC_NCNT; i++)
		fprintf(jf, "%s\"%s\":%" PRIu64, i ? "," : "", engine_counters[i], T.cnt[i]);
	fprintf(jf, "}}\n");
	fclose(jf);
	fclose(hf);
	fclose(of);
	close(errfd);
	return (0);
}

/* ================= main ================= */
static void
usage(void)
{

	fprintf(stderr,
	    "usage: %s [--prop ID] [--explain] [--af STEP,K,PERSIST] MODE\n"
	    "  --gen SEED                      print the plan generated from SEED\n"
	    "  --run FILE                      run a plan file in a fresh child, print result as JSON\n"
	    "  --seed SEED                     generate and run SEED, print result as JSON\n"
	    "  --batch FIRST COUNT OUTPREFIX   run seeds FIRST..FIRST+COUNT-1\n"
	    "  --props                         list properties and counters\n", engine_name);
	exit(2);
}

int
main(int argc, char ** argv)
{
	int i;
	const char * mode = NULL;
	const char * a1 = NULL, * a2 = NULL, * a3 = NULL;
	int maxreport = 60;

	for (i = 1; i < argc; i++) {
		if (!strcmp(argv[i], "--prop") && i + 1 < argc)
			sim_prop = argv[++i];
		else if (!strcmp(argv[i], "--explain"))
			sim_verbose = 1;
		else if (!strcmp(argv[i], "--maxreport") && i + 1 < argc)
			maxreport = atoi(argv[++i]);
		else if (!strcmp(argv[i], "--af") && i + 1 < argc) {
			if (sscanf(argv[++i], "%d,%d,%d", &sim_af_step, &sim_af_k, &sim_af_persist) != 3)
				usage();
		} else if (!strcmp(argv[i], "--gen") || !strcmp(argv[i], "--run") ||
		    !strcmp(argv[i], "--seed")) {
			mode = argv[i];
			if (i + 1 >= argc)
				usage();
			a1 = argv[++i];
		} else if (!strcmp(argv[i], "--batch")) {
			mode = argv[i];
			if (i + 3 >= argc)
				usage();
			a1 = argv[++i];
			a2 = argv[++i];
			a3 = argv[++i];
		} else if (!strcmp(argv[i], "--props")) {
			mode = argv[i];
		} else
			usage();
	}
	if (mode == NULL)
		usage();
	sim_c14 = (strcmp(sim_prop, "C14") == 0);

	if (!strcmp(mode, "--props")) {
		printf("{\"engine\":\"%s\",\"props\":[", engine_name);
		for (i = 0; engine_props[i] != NULL; i++)
			printf("%s\"%s\"", i ? "," : "", engine_props[i]);
		printf("],\"counters\":[");
		for (i = 0; engine_counters[i] != NULL; i++)
			printf("%s\"%s\"", i ? "," : "", engine_counters[i]);
		printf("]}\n");
		return (0);
	}
	if (!strcmp(mode, "--gen")) {
		struct plan P;
		struct prng g;
		uint64_t seed = strtoull(a1, NULL, 0);

		plan_init(&P);
		prng_seed(&g, seed, 0);
		engine_gen(&P, seed, &g);
		printf("# engine %s seed %" PRIu64 "\n", engine_name, seed);
		plan_print(&P, stdout);
		return (0);
	}

	R = mmap(NULL, sizeof(struct rec), PROT_READ | PROT_WRITE, MAP_SHARED | MAP_ANONYMOUS, -1, 0);
	if (R == MAP_FAILED) {
		perror("mmap");
		return (2);
	}
	engine_zygote_init();

	if (!strcmp(mode, "--batch"))
		return (batch(strtoull(a1, NULL, 0), strtoull(a2, NULL, 0), a3, maxreport));

	{
		struct plan P;
		struct outcome o;
		uint64_t seed = 0;
		

		plan_init(&P);
		if (!strcmp(mode, "--run")) {
			FILE * f = fopen(a1, "r");
			const struct pline * fl;

			if (f == NULL) {
				perror(a1);
				return (2);
			}
			plan_parse(&P, f);
			fclose(f);
			/* A plan file may carry its own allocation-failure point. */
			if (sim_af_step < 0 && (fl = plan_find(&P, "fault", "allocfail")) != NULL &&
			    fl->nargs >= 3) {
				sim_af_step = (int)fl->a[0];
				sim_af_k = (int)fl->a[1];
				sim_af_persist = (int)fl->a[2];
			}
		} else {
			struct prng g;

			seed = strtoull(a1, NULL, 0);
			prng_seed(&g, seed, 0);
			engine_gen(&P, seed, &g);
		}
		if (!sim_verbose)
			errfd = memfd_create("verif-err", 0);
		run_one(&P, seed, 0, &o);
		if (errfd >= 0 && o.kind == 3) {
			/* show the captured report */
			char buf[8192];
			ssize_t n;

			lseek(errfd, 0, SEEK_SET);
			while ((n = read(errfd, buf, sizeof(buf))) > 0)
				fwrite(buf, 1, (size_t)n, stderr);
		}
		if (errfd >= 0)
			close(errfd);
		print_outcome(stdout, "r", seed, &o);
		return (o.kind == 0 ? 0 : (o.kind == 2 ? 2 : 1));
	}
}
