/*
 * sim.h -- core of the deterministic simulator shared by all engines.
 *
 * One run = one plan executed in one forked child.  seed -> plan is a pure
 * function (engine_gen); plan -> run is a pure function (engine_run draws no
 * random numbers).  See DESIGN.md section 3.
 */
#ifndef SIM_H_
#define SIM_H_

#include <stddef.h>
#include <stdint.h>
#include <stdio.h>

/* ---------- PRNG (splitmix64); only used by engine_gen ---------- */
struct prng { uint64_t s; };
void prng_seed(struct prng *, uint64_t seed, uint64_t stream);
uint64_t prng_u64(struct prng *);
uint32_t prng_n(struct prng *, uint32_t n);		/* uniform in [0, n), n > 0 */
int prng_chance(struct prng *, unsigned pct);		/* true with pct % */
int64_t prng_range(struct prng *, int64_t lo, int64_t hi);	/* inclusive */

/* ---------- plans ---------- */
#define TOK_MAXV 8
struct tok { int n; int64_t v[TOK_MAXV]; };
#define PL_MAXARGS 16
struct pline {
	char kind[8];		/* "knob", "step", "al", "fault", "data" */
	char name[28];
	int nargs;
	int64_t a[PL_MAXARGS];
	int ntok;
	struct tok * tok;	/* tape / list attached to the line */
	int tokcap;
};
struct plan {
	int n, cap;
	struct pline * l;
};
void plan_init(struct plan *);
struct pline * plan_add(struct plan *, const char * kind, const char * name, int nargs, ...);
void pline_tok(struct pline *, int n, ...);	/* append one token */
void pline_tokv(struct pline *, int n, const int64_t * v);
int plan_parse(struct plan *, FILE *);
void plan_print(const struct plan *, FILE *);
int64_t plan_knob(const struct plan *, const char * name, int64_t dflt);
const struct pline * plan_find(const struct plan *, const char * kind, const char * name);

/* ---------- result record (in shared memory) ---------- */
#define REC_NCNT 64
#define REC_NSTEP 512
struct rec {
	int status;		/* 0 = held, 1 = violation, 2 = internal error (harness) */
	int done;		/* child reached the end of engine_run */
	char oracle[40];
	char sig[96];		/* shape signature for known-finding matching */
	char msg[400];
	uint64_t hash;		/* trace hash = interleaving fingerprint */
	uint64_t sim_ns;	/* simulated time covered */
	uint32_t steps;
	int nontrivial;
	uint64_t cnt[REC_NCNT];	/* fault-fired counters and probes, named by engine_counters[] */
	uint32_t foreign;	/* violations of oracles of properties other than the selected one */
	char foreign_first[40];
	/* allocator accounting (C14 enumeration) */
	int nstep_alloc;			/* number of plan steps that were executed */
	uint16_t nalloc[REC_NSTEP];	/* library-context allocations made during step j */
	char crash_prop[8];	/* property a crash of this run would contradict ("" = the selected one) */
	int af_fired;		/* an injected allocation failure has happened */
	/* side channel for engines that report values to the driver */
	char out[16384];
};
extern struct rec * R;

/* ---------- run-time services for engines ---------- */
extern int sim_verbose;			/* --explain: print narrative trace */
extern const char * sim_prop;		/* property selected with --prop */
extern int sim_c14;			/* 1 when the selected property is C14 */
void sim_trh(uint64_t code, uint64_t a, uint64_t b);
#define TR(code, a, b, ...) do { sim_trh((uint64_t)(code), (uint64_t)(a), (uint64_t)(b)); \
	if (sim_verbose) { fprintf(stderr, "  " __VA_ARGS__); fputc('\n', stderr); } } while (0)
#define NOTE(...) do { if (sim_verbose) { fprintf(stderr, "  " __VA_ARGS__); fputc('\n', stderr); } } while (0)

/*
 * Report a violation of oracle `oracle' ("C04.live").  If the oracle belongs
 * to the selected property the run ends here; otherwise it is counted and the
 * run continues.  sig may be NULL.
 */
void sim_viol(const char * oracle, const char * sig, const char * fmt, ...)
    __attribute__((format(printf, 3, 4)));
/* Harness-internal failure (step cap, impossible state): exit status 2. */
void sim_internal(const char * fmt, ...) __attribute__((format(printf, 1, 2), noreturn));
int sim_selected(const char * oracle);	/* does this oracle belong to the selected property? */
void sim_finish(void) __attribute__((noreturn));	/* normal end of a run (child) */

/* C14: allocation-failure injection chosen for this run (-1 = none). */
extern int sim_af_step, sim_af_k, sim_af_persist;

/* ---------- what an engine provides ---------- */
extern const char * engine_name;
extern const char * const engine_counters[];	/* NULL-terminated, at most REC_NCNT */
extern const char * const engine_props[];	/* properties this engine serves, NULL-terminated */
void engine_zygote_init(void);			/* once, before any fork; no library code */
void engine_gen(struct plan *, uint64_t seed, struct prng *);
void engine_run(const struct plan *);		/* must end by returning (then sim_finish is called) */

#endif
