/*
 * simalloc.c -- allocator seam (see simalloc.h).
 */
#include <errno.h>
#include <stdio.h>
#include <stdlib.h>
#include <string.h>

#include "sim.h"
#include "simalloc.h"

void * __real_malloc(size_t);
void * __real_calloc(size_t, size_t);
void * __real_realloc(void *, size_t);
void __real_free(void *);

int simalloc_depth;
int simalloc_realloc_moves;
int simalloc_refuse_shrink;
int simalloc_fill = -1;
uint64_t simalloc_fill_seed;
int simalloc_cur_step = -1;
int simalloc_failed, simalloc_failed_in_step;
uint64_t simalloc_nlib, simalloc_nrefused_shrink, simalloc_nmoved;
void (* simalloc_free_hook)(void *, size_t);
int simalloc_oneshot = -1;

static int persist_on;
static int step_allocs;		/* library allocations seen in the current step */

#define TBITS 17
#define TSIZE (1u << TBITS)
struct blk { void * p; size_t size; uint32_t lib; uint32_t seq; };
static struct blk tab[TSIZE];
static const void * const TOMB = (void *)(uintptr_t)1;
static uint32_t seqctr;
static size_t nused;

static uint32_t
hp(const void * p)
{
	uint64_t x = (uint64_t)(uintptr_t)p;

	x ^= x >> 33;
	x *= 0xff51afd7ed558ccdULL;
	x ^= x >> 29;
	return ((uint32_t)x & (TSIZE - 1));
}

static struct blk *
find(const void * p)
{
	uint32_t i = hp(p), n;

	for (n = 0; n < TSIZE; n++, i = (i + 1) & (TSIZE - 1)) {
		if (tab[i].p == p)
			return (&tab[i]);
		if (tab[i].p == NULL)
			return (NULL);
	}
	return (NULL);
}

static void
insert(void * p, size_t size)
{
	uint32_t i = hp(p), n;

	if (nused > TSIZE / 2) {
		/* drop tombstones: re-insert the live entries */
		static struct blk tmp[TSIZE];
		uint32_t j, k, live = 0;

		for (j = 0; j < TSIZE; j++)
			if (tab[j].p != NULL && tab[j].p != TOMB)
				tmp[live++] = tab[j];
		memset(tab, 0, sizeof(tab));
		nused = 0;
		if (live > TSIZE / 4)
			sim_internal("simalloc: block table full (%u live blocks)", live);
		for (j = 0; j < live; j++) {
			k = hp(tmp[j].p);
			while (tab[k].p != NULL)
				k = (k + 1) & (TSIZE - 1);
			tab[k] = tmp[j];
			nused++;
		}
	}
	for (n = 0; n < TSIZE; n++, i = (i + 1) & (TSIZE - 1)) {
		if (tab[i].p == NULL || tab[i].p == TOMB) {
			if (tab[i].p == NULL)
				nused++;
			tab[i].p = p;
			tab[i].size = size;
			tab[i].lib = (simalloc_depth > 0);
			tab[i].seq = ++seqctr;
			return;
		}
	}
}

static void
fill(unsigned char * p, size_t from, size_t to)
{
	size_t i;

	if (simalloc_fill < 0 || to <= from)
		return;
	if (simalloc_fill < 256) {
		memset(p + from, simalloc_fill, to - from);
		return;
	}
	for (i = from; i < to; i++) {
		uint64_t x = simalloc_fill_seed + i * 0x9e3779b97f4a7c15ULL;

		x ^= x >> 31;
		x *= 0xbf58476d1ce4e5b9ULL;
		p[i] = (unsigned char)(x >> 40);
	}
}

void
simalloc_step(int j)
{

	simalloc_cur_step = j;
	step_allocs = 0;
	simalloc_failed_in_step = 0;
	if (R != NULL && j >= 0 && j < REC_NSTEP && j + 1 > R->nstep_alloc)
		R->nstep_alloc = j + 1;
}

/* Decide whether this library-context allocation fails. */
static int
should_fail(void)
{
	int k;

	if (simalloc_depth <= 0)
		return (0);
	simalloc_nlib++;
	k = step_allocs++;
	if (R != NULL && simalloc_cur_step >= 0 && simalloc_cur_step < REC_NSTEP &&
	    R->nalloc[simalloc_cur_step] < 65535)
		R->nalloc[simalloc_cur_step]++;
	if (persist_on)
		goto fail;
	if (simalloc_oneshot >= 0 && simalloc_oneshot-- == 0)
		goto fail;
	if (sim_af_step >= 0 && simalloc_cur_step == sim_af_step && k == sim_af_k) {
		if (sim_af_persist)
			persist_on = 1;
		goto fail;
	}
	return (0);
fail:
	if (R != NULL)
		R->af_fired = 1;
	simalloc_failed++;
	simalloc_failed_in_step++;
	if (sim_verbose)
		fprintf(stderr, "  [alloc] library allocation #%d of step %d FAILS%s\n", k,
		    simalloc_cur_step, persist_on ? " (persistent)" : "");
	errno = ENOMEM;
	return (1);
}

void *
__wrap_malloc(size_t n)
{
	void * p;

	if (should_fail())
		return (NULL);
	p = __real_malloc(n);
	if (p != NULL) {
		insert(p, n);
		fill(p, 0, n);
	}
	return (p);
}

void *
__wrap_calloc(size_t a, size_t b)
{
	void * p;

	if (should_fail())
		return (NULL);
	p = __real_calloc(a, b);
	if (p != NULL)
		insert(p, a * b);
	return (p);
}

void
__wrap_free(void * p)
{
	struct blk * b;

	if (p == NULL)
		return;
	if ((b = find(p)) != NULL) {
		if (simalloc_free_hook != NULL)
			simalloc_free_hook(p, b->size);
		b->p = (void *)(uintptr_t)TOMB;
	}
	__real_free(p);
}

void *
__wrap_realloc(void * old, size_t n)
{
	struct blk * b;
	size_t osize;
	void * p;

	if (old == NULL)
		return (__wrap_malloc(n));
	b = find(old);
	osize = b ? b->size : 0;
	if (n == 0) {
		/* realloc(p, 0): behave like free + NULL-or-minimal (glibc frees). */
		__wrap_free(old);
		return (NULL);
	}
	if (simalloc_depth > 0 && b != NULL && n < osize && simalloc_refuse_shrink) {
		/* A shrinking realloc may legitimately fail. */
		simalloc_nlib++;
		step_allocs++;
		if (R != NULL && simalloc_cur_step >= 0 && simalloc_cur_step < REC_NSTEP &&
		    R->nalloc[simalloc_cur_step] < 65535)
			R->nalloc[simalloc_cur_step]++;
		simalloc_nrefused_shrink++;
		errno = ENOMEM;
		return (NULL);
	}
	if (should_fail())
		return (NULL);
	if (b != NULL && (simalloc_realloc_moves || simalloc_free_hook != NULL)) {
		/* Move explicitly so that the old block can be inspected and poisoned. */
		int d = simalloc_depth;

		p = __real_malloc(n);
		if (p == NULL)
			return (NULL);
		memcpy(p, old, n < osize ? n : osize);
		{
			uint32_t lib = b->lib;

			if (simalloc_free_hook != NULL)
				simalloc_free_hook(old, osize);
			b->p = (void *)(uintptr_t)TOMB;
			__real_free(old);
			simalloc_depth = lib ? 1 : 0;
			insert(p, n);
			simalloc_depth = d;
		}
		simalloc_nmoved++;
		fill(p, osize, n);
		return (p);
	}
	p = __real_realloc(old, n);
	if (p == NULL)
		return (NULL);
	if (b != NULL) {
		uint32_t lib = b->lib;
		int d = simalloc_depth;

		b->p = (void *)(uintptr_t)TOMB;
		simalloc_depth = lib ? 1 : 0;
		insert(p, n);
		simalloc_depth = d;
		if (p != old)
			simalloc_nmoved++;
		fill(p, osize, n);
	} else
		insert(p, n);
	return (p);
}

char *
__wrap_strdup(const char * s)
{
	size_t n = strlen(s) + 1;
	char * p = __wrap_malloc(n);

	if (p != NULL)
		memcpy(p, s, n);
	return (p);
}

size_t
simalloc_lib_live(size_t * bytes)
{
	size_t n = 0, by = 0;
	uint32_t i;

	for (i = 0; i < TSIZE; i++)
		if (tab[i].p != NULL && tab[i].p != TOMB && tab[i].lib) {
			n++;
			by += tab[i].size;
		}
	if (bytes != NULL)
		*bytes = by;
	return (n);
}

void
simalloc_dump_live(void)
{
	uint32_t i;

	for (i = 0; i < TSIZE; i++)
		if (tab[i].p != NULL && tab[i].p != TOMB && tab[i].lib)
			fprintf(stderr, "  [alloc] live library block seq=%u size=%zu\n", tab[i].seq,
			    tab[i].size);
}

int
simalloc_is_live(const void * p)
{

	return (p != NULL && find(p) != NULL);
}

size_t
simalloc_size(const void * p)
{
	struct blk * b = (p != NULL) ? find(p) : NULL;

	return (b ? b->size : (size_t)(-1));
}

void *
simalloc_block_of(const void * p, size_t * size)
{
	uint32_t i;

	for (i = 0; i < TSIZE; i++)
		if (tab[i].p != NULL && tab[i].p != TOMB &&
		    (const char *)p >= (const char *)tab[i].p &&
		    (const char *)p <= (const char *)tab[i].p + tab[i].size) {
			if (size != NULL)
				*size = tab[i].size;
			return (tab[i].p);
		}
	return (NULL);
}

/* ---------- atexit ---------- */
#define MAXATEXIT 64
static void (* handlers[MAXATEXIT])(void);
static int nhandlers;

int
__wrap_atexit(void (* f)(void))
{

	if (nhandlers >= MAXATEXIT)
		return (-1);
	handlers[nhandlers++] = f;
	return (0);
}

int
simalloc_natexit(void)
{

	return (nhandlers);
}

void
simalloc_run_atexit(void)
{

	LIB_ENTER();
	while (nhandlers > 0)
		(handlers[--nhandlers])();
	LIB_LEAVE();
}
