/*
 * simalloc.h -- the allocator seam: __wrap_malloc & co.
 *
 * Link with -Wl,--wrap=malloc,--wrap=calloc,--wrap=realloc,--wrap=free,
 * --wrap=strdup,--wrap=atexit .  Only references from the objects being
 * linked (repo code and the harness) are redirected; libc/libcrypto/sanitizer
 * internals are not, which is the intended meaning of "allocation performed
 * by library code".
 */
#ifndef SIMALLOC_H_
#define SIMALLOC_H_

#include <stddef.h>
#include <stdint.h>

/* Context: library code (depth > 0) vs harness. */
extern int simalloc_depth;
#define LIB_ENTER()	(simalloc_depth++)
#define LIB_LEAVE()	(simalloc_depth--)
/* In user callbacks invoked by the library: */
#define CB_ENTER()	int simalloc_saved_depth_ = simalloc_depth; simalloc_depth = 0
#define CB_LEAVE()	simalloc_depth = simalloc_saved_depth_

/* Policy knobs (set once per run, before library code runs). */
extern int simalloc_realloc_moves;	/* 0 = in place when the real allocator does; 1 = always move */
extern int simalloc_refuse_shrink;	/* 1 = shrinking realloc returns NULL */
extern int simalloc_fill;		/* -1 = leave; 0..255 byte; 256 = pattern from fill_seed */
extern uint64_t simalloc_fill_seed;

/* Failure injection: fail library allocation number k (0-based) of step j. */
void simalloc_step(int j);		/* the harness is now executing plan step j */
extern int simalloc_cur_step;
extern int simalloc_failed;		/* number of allocations failed so far in this run */
extern int simalloc_failed_in_step;	/* ... during the current step */
extern uint64_t simalloc_nlib;		/* library-context allocations so far */
extern uint64_t simalloc_nrefused_shrink, simalloc_nmoved;

/* Engine-driven injection: fail the k-th library allocation from now on (one shot; -1 = off). */
extern int simalloc_oneshot;

/* Live-set queries. */
size_t simalloc_lib_live(size_t * bytes);	/* blocks allocated in library context and still live */
int simalloc_is_live(const void * p);
size_t simalloc_size(const void * p);		/* size if tracked, else (size_t)-1 */
void simalloc_dump_live(void);			/* verbose: list live library blocks */
/* Which live block contains address p?  Returns base or NULL; *size set. */
void * simalloc_block_of(const void * p, size_t * size);

/* Hook called for every block about to be released (free/realloc). */
extern void (* simalloc_free_hook)(void * p, size_t size);

/* Captured atexit handlers. */
void simalloc_run_atexit(void);
int simalloc_natexit(void);

#endif
