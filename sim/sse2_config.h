/* CPUSUPPORT configuration: SHA-256 through the SSE2 code (a CPU with SSE2 but without SHA extensions). */
#define CPUSUPPORT_X86_CPUID 1
#define CPUSUPPORT_X86_CPUID_COUNT 1
#define CPUSUPPORT_X86_SSE2 1
