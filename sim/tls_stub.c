/*
 * tls_stub.c -- a stand-in for network_ssl/network_ssl.c (STUB component).
 *
 * The TLS record layer itself (OpenSSL driven through SSL_set_fd) cannot be
 * put behind the simulated kernel: libssl performs its own read()/write()
 * system calls from inside a shared library, out of reach of link-time
 * wrapping.  What the properties care about is the code of this repository
 * that sits on top of it: https.c, the sslhost branches of http.c,
 * netbuf_ssl.c and the ssl branches of netbuf_read.c / netbuf_write.c.  Those
 * run unmodified against this stub, which implements the network_ssl.h
 * interface as a pass-through to network_read/network_write on the same
 * descriptor (a "null cipher"), and checks the interface contract stated in
 * network_ssl.c: at most one read and one write outstanding per context, no
 * close while an operation is pending, every operation handed a context that
 * is still open.
 */
#include <assert.h>
#include <stdint.h>
#include <stdlib.h>
#include <string.h>
#include <unistd.h>

#include "network.h"
#include "network_ssl.h"

#include "sim.h"
#include "tls_stub.h"

struct tls_op {
	struct network_ssl_ctx * ssl;
	int dir;
	int (* callback)(void *, ssize_t);
	void * cookie;
	void * inner;
};

struct network_ssl_ctx {
	uint32_t magic;
	int s;
	struct tls_op * op[2];
};
#define TLS_MAGIC 0x544c5331

uint64_t tls_stub_opens, tls_stub_reads, tls_stub_writes, tls_stub_closes, tls_stub_cancels;
int tls_stub_live;
const char * tls_stub_oracle = "C08.tls-contract";

static void
check_ctx(struct network_ssl_ctx * ssl, const char * what)
{

	if (ssl == NULL)
		sim_viol(tls_stub_oracle, "null-ctx", "%s called with a NULL TLS context", what);
	if (ssl->magic != TLS_MAGIC)
		sim_viol(tls_stub_oracle, "dead-ctx", "%s called with a TLS context that is not open", what);
}

struct network_ssl_ctx *
network_ssl_open(int s, const char * hostname)
{
	struct network_ssl_ctx * ssl;

	if (hostname == NULL || strlen(hostname) == 0)
		sim_viol(tls_stub_oracle, "hostname", "network_ssl_open without a host name");
	if (s < 0)
		sim_viol(tls_stub_oracle, "bad-fd", "network_ssl_open on descriptor %d", s);
	if ((ssl = malloc(sizeof(struct network_ssl_ctx))) == NULL)
		return (NULL);
	ssl->magic = TLS_MAGIC;
	ssl->s = s;
	ssl->op[0] = ssl->op[1] = NULL;
	tls_stub_opens++;
	tls_stub_live++;
	return (ssl);
}

static int
trampoline(void * cookie, ssize_t len)
{
	struct tls_op * op = cookie;
	int (* cb)(void *, ssize_t) = op->callback;
	void * ck = op->cookie;

	op->ssl->op[op->dir] = NULL;
	free(op);
	return (cb(ck, len));
}

static void *
start(struct network_ssl_ctx * ssl, int dir, uint8_t * buf, size_t buflen, size_t minlen,
    int (* callback)(void *, ssize_t), void * cookie)
{
	struct tls_op * op;

	check_ctx(ssl, dir ? "network_ssl_write" : "network_ssl_read");
	if (ssl->op[dir] != NULL)
		sim_viol(tls_stub_oracle, "overlap", "a second TLS %s was started while one is outstanding", dir ? "write" : "read");
	if (buflen == 0 || minlen > buflen)
		sim_viol(tls_stub_oracle, "lengths", "TLS %s with buflen %zu and minimum %zu", dir ? "write" : "read", buflen, minlen);
	if ((op = malloc(sizeof(struct tls_op))) == NULL)
		return (NULL);
	op->ssl = ssl;
	op->dir = dir;
	op->callback = callback;
	op->cookie = cookie;
	if (dir)
		op->inner = network_write(ssl->s, buf, buflen, minlen, trampoline, op);
	else
		op->inner = network_read(ssl->s, buf, buflen, minlen, trampoline, op);
	if (op->inner == NULL) {
		free(op);
		return (NULL);
	}
	ssl->op[dir] = op;
	return (op);
}

void *
network_ssl_read(struct network_ssl_ctx * ssl, uint8_t * buf, size_t buflen, size_t minread,
    int (* callback)(void *, ssize_t), void * cookie)
{

	tls_stub_reads++;
	return (start(ssl, 0, buf, buflen, minread, callback, cookie));
}

void *
network_ssl_write(struct network_ssl_ctx * ssl, const uint8_t * buf, size_t buflen, size_t minwrite,
    int (* callback)(void *, ssize_t), void * cookie)
{

	tls_stub_writes++;
	return (start(ssl, 1, (uint8_t *)(uintptr_t)buf, buflen, minwrite, callback, cookie));
}

static void
cancel(void * cookie, int dir)
{
	struct tls_op * op = cookie;

	check_ctx(op->ssl, "network_ssl_*_cancel");
	if (op->ssl->op[dir] != op)
		sim_viol(tls_stub_oracle, "stale-cancel", "TLS %s cancel with a cookie that is not outstanding", dir ? "write" : "read");
	if (dir)
		network_write_cancel(op->inner);
	else
		network_read_cancel(op->inner);
	op->ssl->op[dir] = NULL;
	free(op);
	tls_stub_cancels++;
}

void
network_ssl_read_cancel(void * cookie)
{

	cancel(cookie, 0);
}

void
network_ssl_write_cancel(void * cookie)
{

	cancel(cookie, 1);
}

void
network_ssl_close(struct network_ssl_ctx * ssl)
{

	check_ctx(ssl, "network_ssl_close");
	if (ssl->op[0] != NULL || ssl->op[1] != NULL)
		sim_viol(tls_stub_oracle, "close-pending", "network_ssl_close while a TLS %s is outstanding (the real implementation asserts)",
		    ssl->op[0] != NULL ? "read" : "write");
	ssl->magic = 0;
	tls_stub_closes++;
	tls_stub_live--;
	free(ssl);
}
