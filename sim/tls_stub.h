/* tls_stub.h -- counters and knobs of the null-cipher stand-in for network_ssl.c */
#ifndef TLS_STUB_H_
#define TLS_STUB_H_

#include <stdint.h>

extern uint64_t tls_stub_opens, tls_stub_reads, tls_stub_writes, tls_stub_closes, tls_stub_cancels;
extern int tls_stub_live;		/* contexts open right now */
extern const char * tls_stub_oracle;	/* oracle id under which contract violations are reported */

#endif
