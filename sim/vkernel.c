/*
 * vkernel.c -- simulated kernel for stream sockets (see vkernel.h, DESIGN.md appendix B).
 */
#define _GNU_SOURCE
#include <sys/socket.h>
#include <netinet/in.h>

#include <errno.h>
#include <fcntl.h>
#include <poll.h>
#include <stdarg.h>
#include <stdlib.h>
#include <string.h>
#include <time.h>
#include <unistd.h>

#include "sim.h"
#include "simalloc.h"
#include "vkernel.h"

void * __real_malloc(size_t);
void * __real_realloc(void *, size_t);
void __real_free(void *);
ssize_t __real_recv(int, void *, size_t, int);
ssize_t __real_send(int, const void *, size_t, int);
int __real_close(int);
int __real_fcntl(int, int, ...);
int __real_poll(struct pollfd *, nfds_t, int);

struct vsock vk_socks[VK_MAXSOCK];
uint64_t vk_now_ns = VK_T0_NS;
uint64_t vk_tick_ns;
int vk_fd_base = 3;
int vk_in_run;
const struct pline * vk_polltape;
int vk_polltape_pos;
int vk_faults_off;
struct vkstats vk_stats;
static int next_id;

void (* vk_on_poll)(void *, unsigned long, int);
int (* vk_on_deadlock)(void);
int (* vk_on_connect)(struct vsock *, int, struct vk_connect_answer *);
int (* vk_on_socket)(void);
int (* vk_on_bind)(struct vsock *);
void (* vk_on_close)(struct vsock *);
const char * vk_block_oracle;
int vk_bare_err;
int vk_getsockopt_fail_at = -1, vk_close_fail_at = -1;
void (* vk_on_recv)(struct vsock *, long, int);
const void * vk_last_recv_buf;
size_t vk_last_recv_len;
void (* vk_on_send)(struct vsock *, const void *, long, int);

uint64_t
vk_now_us(void)
{

	return (vk_now_ns / 1000);
}

struct vsock *
vk_sock(int fd)
{
	int i;

	if (fd < 0)
		return (NULL);
	for (i = 0; i < VK_MAXSOCK; i++)
		if (vk_socks[i].used && vk_socks[i].fd == fd)
			return (&vk_socks[i]);
	return (NULL);
}

static struct vsock *
vk_alloc(void)
{
	static int next_slot;
	int fd;
	struct vsock * s;

	/* Slots are never reused within a run (descriptor numbers are), so engine pointers stay valid. */
	if (next_slot >= VK_MAXSOCK)
		sim_internal("vkernel: out of socket slots");
	s = &vk_socks[next_slot++];
	for (fd = vk_fd_base; vk_sock(fd) != NULL; fd++)
		;
	memset(s, 0, sizeof(*s));
	s->used = 1;
	s->fd = fd;
	s->id = next_id++;
	s->addr_idx = -1;
	s->ev_base_ns = vk_now_ns;
	return (s);
}

struct vsock *
vk_new_stream(void)
{
	struct vsock * s = vk_alloc();

	s->cstate = 2;
	s->nonblock = 1;	/* what the harness hands to the library is non-blocking, as its interface requires */
	return (s);
}

struct vsock *
vk_new_listener(void)
{
	struct vsock * s = vk_alloc();

	s->listening = 1;
	s->nonblock = 1;
	return (s);
}

void
vk_set_rx(struct vsock * s, uint8_t * stream, size_t len)
{

	s->rx = stream;
	s->rxlen = len;
}

void
vk_script(struct vsock * s, const struct pev * ev, int nev)
{
	int d = simalloc_depth;

	simalloc_depth = 0;
	s->ev = realloc(s->ev, (size_t)(s->nev + nev + 1) * sizeof(struct pev));
	memcpy(s->ev + s->nev, ev, (size_t)nev * sizeof(struct pev));
	if (s->evpos == s->nev)
		s->ev_base_ns = vk_now_ns;
	s->nev += nev;
	simalloc_depth = d;
}

void
vk_tape(struct tape * t, const struct tdir * d, int n)
{
	int dd = simalloc_depth;

	simalloc_depth = 0;
	t->d = realloc(t->d, (size_t)(n + 1) * sizeof(struct tdir));
	memcpy(t->d, d, (size_t)n * sizeof(struct tdir));
	t->n = n;
	t->pos = 0;
	simalloc_depth = dd;
}

static struct tdir
tape_next(struct tape * t)
{
	struct tdir none = { TD_DEFAULT, 0 };

	if (vk_faults_off || t->pos >= t->n)
		return (none);
	return (t->d[t->pos++]);
}

/* Is the head event of this socket's script ready to be timed?  Returns its fire time. */
static int
ev_due(struct vsock * s, uint64_t * at)
{
	struct pev * e;

	if (s->evpos >= s->nev)
		return (0);
	e = &s->ev[s->evpos];
	if (e->need_tx >= 0 && (int64_t)s->txlen < e->need_tx)
		return (0);
	*at = s->ev_base_ns + e->delay_ns;
	return (1);
}

static void
fire(struct vsock * s, struct pev * e)
{

	vk_stats.script_events++;
	switch (e->type) {
	case PE_DELIVER:
		s->rxavail += (size_t)e->arg;
		if (s->rxavail > s->rxlen)
			s->rxavail = s->rxlen;
		TR(0xB1, s->id, e->arg, "peer[%d]: delivers %ld bytes (total %zu)", s->id, (long)e->arg, s->rxavail);
		break;
	case PE_EOF:
		s->rx_eof = 1;
		TR(0xB2, s->id, 0, "peer[%d]: closes (EOF after %zu bytes)", s->id, s->rxavail);
		break;
	case PE_RST:
		s->rx_err = (int)e->arg;
		s->peer_gone = 1;
		s->hup = 1;
		s->rx_eof = 1;		/* once the error has been reported, reads see end-of-stream */
		TR(0xB3, s->id, e->arg, "peer[%d]: connection fails with errno %ld", s->id, (long)e->arg);
		break;
	case PE_DRAIN:
		s->txwin += (size_t)e->arg;
		TR(0xB4, s->id, e->arg, "peer[%d]: reads %ld bytes (send window now %zu)", s->id, (long)e->arg, s->txwin);
		break;
	case PE_CLIENT:
		s->backlog++;
		TR(0xB5, s->id, 0, "listener[%d]: a client connects", s->id);
		break;
	case PE_CONNDONE:
		if (s->cstate == 1) {
			if (e->arg == 0)
				s->cstate = 2;
			else {
				s->cstate = 3;
				s->so_error = (int)e->arg;
			}
			TR(0xB6, s->id, e->arg, "connect[%d]: concludes with errno %ld", s->id, (long)e->arg);
		}
		break;
	case PE_HUPFLAG:
		s->hup = (int)e->arg;
		break;
	}
}

void
vk_pump(void)
{
	int i, again;

	do {
		again = 0;
		for (i = 0; i < VK_MAXSOCK; i++) {
			struct vsock * s = &vk_socks[i];
			uint64_t at;

			if (!s->used)
				continue;
			/* A condition that has just become true arms the event now. */
			if (s->evpos < s->nev && s->ev[s->evpos].need_tx >= 0 &&
			    (int64_t)s->txlen >= s->ev[s->evpos].need_tx) {
				s->ev[s->evpos].need_tx = -1;
				s->ev_base_ns = vk_now_ns;
			}
			if (ev_due(s, &at) && at <= vk_now_ns) {
				struct pev * e = &s->ev[s->evpos++];

				s->ev_base_ns = vk_now_ns;
				fire(s, e);
				again = 1;
			}
		}
	} while (again);
}

static int
next_event(uint64_t * at)
{
	int i, h = 0;
	uint64_t m = ~0ULL, a;

	for (i = 0; i < VK_MAXSOCK; i++)
		if (vk_socks[i].used && ev_due(&vk_socks[i], &a)) {
			h = 1;
			if (a < m)
				m = a;
		}
	*at = m;
	return (h);
}

void
vk_open_all(void)
{
	int i;

	vk_faults_off = 1;
	for (i = 0; i < VK_MAXSOCK; i++) {
		struct vsock * s = &vk_socks[i];

		if (!s->used)
			continue;
		/* play the rest of the script at once */
		while (s->evpos < s->nev)
			fire(s, &s->ev[s->evpos++]);
		if (!s->listening && !s->peer_gone)
			s->txwin = (size_t)1 << 30;
	}
}

int
__wrap_clock_gettime(clockid_t c, struct timespec * ts)
{

	(void)c;
	vk_now_ns += vk_tick_ns;
	ts->tv_sec = (time_t)(vk_now_ns / 1000000000ULL);
	ts->tv_nsec = (long)(vk_now_ns % 1000000000ULL);
	return (0);
}

static short
readiness(struct vsock * s, short events)
{
	short rv = 0;
	int in, out;

	if (s->listening) {
		if ((events & POLLIN) && s->backlog > 0)
			rv |= POLLIN;
		return (rv);
	}
	in = (s->rxpos < s->rxavail) || (s->rx_eof && s->rxpos >= s->rxavail) || s->rx_err;
	if (s->cstate == 1)
		out = 0;
	else if (s->cstate == 3)
		out = 1;
	else
		out = (s->txwin > 0) || s->peer_gone || s->rx_err;
	if (s->cstate == 0 && s->addr_idx < 0 && !s->rx && !s->txwin)
		in = out = 0;	/* fresh, unconnected socket */
	if ((events & POLLIN) && in)
		rv |= POLLIN;
	if ((events & POLLOUT) && out)
		rv |= POLLOUT;
	if (s->rx_err || s->cstate == 3)
		rv |= POLLERR;
	if (s->hup)
		rv |= POLLHUP;
	if (vk_bare_err && s->rx_err && s->cstate != 3 && !(s->rxpos < s->rxavail)) {
		/* some descriptors (datagram sockets, some platforms) report a pending error as POLLERR alone */
		rv = POLLERR;
		vk_stats.bare_err++;
	}
	if (rv & (POLLERR | POLLHUP))
		vk_stats.hup_reported++;
	return (rv);
}

int
__wrap_poll(struct pollfd * fds, nfds_t n, int T)
{
	int depth = simalloc_depth, blocked = 0, fk = 0, farg = 0, cnt;
	uint64_t start;
	nfds_t j;

	simalloc_depth = 0;
	vk_stats.polls++;
	if (vk_stats.polls > 60000) {
		char o[32];

		snprintf(o, sizeof(o), "%s.spin", sim_prop);
		sim_viol(o, "poll-cap", "the event loop called poll more than 60000 times in one run without finishing (busy loop)");
	}
	{
		int i;

		for (i = 0; i < VK_MAXSOCK; i++)
			vk_socks[i].rep_in = vk_socks[i].rep_out = 0;
	}
	TR(0xF0, T < 0 ? 99999 : T, n, "poll(n=%d, timeout=%d) at +%lu us", (int)n, T,
	    (unsigned long)(vk_now_us() - VK_T0_NS / 1000));
	if (vk_on_poll != NULL)
		vk_on_poll(fds, (unsigned long)n, T);
	if (!vk_faults_off && vk_polltape != NULL && vk_polltape_pos < vk_polltape->ntok) {
		fk = (int)vk_polltape->tok[vk_polltape_pos].v[0];
		farg = vk_polltape->tok[vk_polltape_pos].n > 1 ? (int)vk_polltape->tok[vk_polltape_pos].v[1] : 0;
		vk_polltape_pos++;
	}
	if (fk == 1) {
		vk_stats.poll_eintr++;
		TR(0xF1, 0, 0, "  -> EINTR");
		vk_now_ns += 1000;
		errno = EINTR;
		simalloc_depth = depth;
		return (-1);
	}
	start = vk_now_ns;
	for (;;) {
		vk_pump();
		cnt = 0;
		for (j = 0; j < n; j++) {
			struct vsock * s = vk_sock(fds[j].fd);
			short rv = 0;

			if (s != NULL) {
				rv = readiness(s, fds[j].events);
				if (rv & POLLIN)
					s->rep_in = 1;
				if (rv & POLLOUT)
					s->rep_out = 1;
				if (s->cstate == 1 || (s->cstate == 0 && s->addr_idx < 0 && !s->rx))
					;	/* never report a connecting socket ready before the connect concludes */
				else if (fk == 3 && !blocked && n > 0 && (nfds_t)(((farg % (int)n) + (int)n) % (int)n) == j &&
				    (rv & fds[j].events & (POLLIN | POLLOUT)) != (fds[j].events & (POLLIN | POLLOUT))) {
					rv |= fds[j].events & (POLLIN | POLLOUT);
					vk_stats.poll_spurious++;
				}
			}
			fds[j].revents = rv;
			if (rv) {
				cnt++;
				NOTE("      fd=%d revents=0x%x", fds[j].fd, rv);
			}
		}
		if (cnt) {
			vk_now_ns += 1000;
			sim_trh(0xF8, (uint64_t)cnt, (uint64_t)blocked);
			simalloc_depth = depth;
			return (cnt);
		}
		if (T == 0 || (T > 0 && vk_now_ns >= start + (uint64_t)T * 1000000ULL)) {
			vk_now_ns += 1000;
			sim_trh(0xF9, 0, (uint64_t)blocked);
			NOTE("  -> 0 (timeout) at +%lu us", (unsigned long)(vk_now_us() - VK_T0_NS / 1000));
			simalloc_depth = depth;
			return (0);
		}
		{
			uint64_t ne, lim, to;
			int he = next_event(&ne);

			lim = (T > 0) ? start + (uint64_t)T * 1000000ULL : ~0ULL;
			if (!he && T < 0) {
				vk_stats.deadlock_breaks++;
				if (vk_on_deadlock != NULL && vk_on_deadlock()) {
					TR(0xF3, 0, 0, "  -> nothing can ever happen: interrupted");
					vk_now_ns += 1000;
					errno = EINTR;
					simalloc_depth = depth;
					return (-1);
				}
				sim_internal("poll(-1) with nothing scheduled");
			}
			to = (he && ne < lim) ? ne : lim;
			if (to > vk_now_ns)
				vk_now_ns = to;
			blocked = 1;
			vk_stats.blocks++;
		}
	}
}

ssize_t
__wrap_recv(int fd, void * buf, size_t len, int flags)
{
	struct vsock * s = vk_sock(fd);
	struct tdir d;
	size_t avail, n;
	int e;

	if (s == NULL)
		return (__real_recv(fd, buf, len, flags));
	vk_last_recv_buf = buf;
	vk_last_recv_len = len;
	s->n_recv++;
	vk_stats.recv_calls++;
	d = tape_next(&s->t_recv);
	if (d.kind == TD_EAGAIN || d.kind == TD_EINTR) {
		e = (d.kind == TD_EAGAIN) ? EAGAIN : EINTR;
		if (d.kind == TD_EAGAIN)
			vk_stats.recv_eagain++;
		else
			vk_stats.recv_eintr++;
		s->recv_soft++;
		TR(0xD1, s->id, e, "recv(fd=%d, len=%zu) -> -1 %s", fd, len, e == EAGAIN ? "EAGAIN" : "EINTR");
		if (vk_on_recv != NULL)
			vk_on_recv(s, -1, e);
		errno = e;
		return (-1);
	}
	if (d.kind == TD_ERRNO || s->rx_err) {
		e = (d.kind == TD_ERRNO) ? (int)d.arg : s->rx_err;
		if (d.kind != TD_ERRNO)
			s->rx_err = 0;
		s->recv_err_seen = 1;
		vk_stats.recv_err++;
		TR(0xD2, s->id, e, "recv(fd=%d, len=%zu) -> -1 errno %d (hard)", fd, len, e);
		if (vk_on_recv != NULL)
			vk_on_recv(s, -1, e);
		errno = e;
		return (-1);
	}
	avail = s->rxavail - s->rxpos;
	if (avail > 0) {
		n = len < avail ? len : avail;
		if (d.kind == TD_CAP && d.arg >= 1 && (size_t)d.arg < n) {
			n = (size_t)d.arg;
			vk_stats.recv_short++;
		}
		memcpy(buf, s->rx + s->rxpos, n);
		s->rxpos += n;
		vk_stats.bytes_in += n;
		TR(0xD0, s->id, n, "recv(fd=%d, len=%zu) -> %zu (stream offset now %zu)", fd, len, n, s->rxpos);
		if (vk_on_recv != NULL)
			vk_on_recv(s, (long)n, 0);
		return ((ssize_t)n);
	}
	if (s->rx_eof) {
		s->recv_eof_seen = 1;
		vk_stats.recv_eof++;
		TR(0xD3, s->id, 0, "recv(fd=%d, len=%zu) -> 0 (EOF)", fd, len);
		if (vk_on_recv != NULL)
			vk_on_recv(s, 0, 0);
		return (0);
	}
	if (s->rep_in)
		sim_internal("vkernel untruthful: poll reported fd %d readable but recv has nothing to give", fd);
	s->recv_soft++;
	vk_stats.recv_eagain++;
	TR(0xD1, s->id, EAGAIN, "recv(fd=%d, len=%zu) -> -1 EAGAIN (nothing there)", fd, len);
	if (vk_on_recv != NULL)
		vk_on_recv(s, -1, EAGAIN);
	errno = EAGAIN;
	return (-1);
}

ssize_t
__wrap_send(int fd, const void * buf, size_t len, int flags)
{
	struct vsock * s = vk_sock(fd);
	struct tdir d;
	size_t n;
	int e;

	if (s == NULL)
		return (__real_send(fd, buf, len, flags));
	s->n_send++;
	vk_stats.send_calls++;
	d = tape_next(&s->t_send);
	if (d.kind == TD_EAGAIN || d.kind == TD_EINTR) {
		e = (d.kind == TD_EAGAIN) ? EAGAIN : EINTR;
		if (d.kind == TD_EAGAIN)
			vk_stats.send_eagain++;
		else
			vk_stats.send_eintr++;
		s->send_soft++;
		TR(0xD5, s->id, e, "send(fd=%d, len=%zu) -> -1 %s", fd, len, e == EAGAIN ? "EAGAIN" : "EINTR");
		if (vk_on_send != NULL)
			vk_on_send(s, buf, -1, e);
		errno = e;
		return (-1);
	}
	if (d.kind == TD_ERRNO || s->peer_gone || s->rx_err) {
		if (d.kind == TD_ERRNO)
			e = (int)d.arg;
		else if (s->rx_err) {
			e = s->rx_err;
			s->rx_err = 0;
		} else
			e = EPIPE;
		if (e == EPIPE && !(flags & MSG_NOSIGNAL))
			s->sigpipe = 1;
		s->send_err_seen = 1;
		vk_stats.send_err++;
		TR(0xD6, s->id, e, "send(fd=%d, len=%zu) -> -1 errno %d (hard)", fd, len, e);
		if (vk_on_send != NULL)
			vk_on_send(s, buf, -1, e);
		errno = e;
		return (-1);
	}
	if (s->txwin == 0 || s->cstate == 1) {
		if (s->rep_out)
			sim_internal("vkernel untruthful: poll reported fd %d writable but send has no room", fd);
		s->send_soft++;
		vk_stats.send_eagain++;
		TR(0xD5, s->id, EAGAIN, "send(fd=%d, len=%zu) -> -1 EAGAIN (window full)", fd, len);
		if (vk_on_send != NULL)
			vk_on_send(s, buf, -1, EAGAIN);
		errno = EAGAIN;
		return (-1);
	}
	n = len < s->txwin ? len : s->txwin;
	if (d.kind == TD_CAP && d.arg >= 1 && (size_t)d.arg < n)
		n = (size_t)d.arg;
	if (s->bulk_len > 0 && (const uint8_t *)buf >= s->bulk_base && (const uint8_t *)buf < s->bulk_base + s->bulk_len) {
		/*
		 * A transfer too large to log byte by byte (gigabytes): the bytes are identified by their address
		 * inside the caller's buffer instead.  One send moves at most MAX_RW_COUNT bytes, as on Linux.
		 */
		n = len;
		if (n > (size_t)0x7ffff000)
			n = (size_t)0x7ffff000;
		if (d.kind == TD_CAP && d.arg >= 1)
			n = n / (size_t)(1 + d.arg % 7) + 1;
		if (n > len)
			n = len;
		if ((const uint8_t *)buf != s->bulk_base + s->bulk_sent || len > s->bulk_len - s->bulk_sent)
			s->bulk_misordered = 1;
		s->bulk_sent += n;
		s->txlen += n;
		vk_stats.bytes_out += n;
		if (n < len)
			vk_stats.send_short++;
		TR(0xD4, s->id, n, "send(fd=%d, len=%zu) -> %zu (bulk; total sent %zu)", fd, len, n, s->txlen);
		if (vk_on_send != NULL)
			vk_on_send(s, buf, (long)n, 0);
		return ((ssize_t)n);
	}
	if (n < len)
		vk_stats.send_short++;
	if (s->txlen + n > s->txcap) {
		int dd = simalloc_depth;

		simalloc_depth = 0;
		s->txcap = (s->txlen + n) * 2 + 256;
		s->tx = realloc(s->tx, s->txcap);
		simalloc_depth = dd;
		if (s->tx == NULL)
			sim_internal("vkernel: out of memory");
	}
	memcpy(s->tx + s->txlen, buf, n);
	s->txlen += n;
	s->txwin -= n;
	vk_stats.bytes_out += n;
	if (!(flags & MSG_NOSIGNAL) && n == 0)
		s->sigpipe = 0;
	TR(0xD4, s->id, n, "send(fd=%d, len=%zu) -> %zu (total sent %zu)", fd, len, n, s->txlen);
	if (vk_on_send != NULL)
		vk_on_send(s, buf, (long)n, 0);
	return ((ssize_t)n);
}

int
__wrap_socket(int domain, int type, int proto)
{
	struct vsock * s;
	int e;

	(void)domain;
	(void)type;
	(void)proto;
	if (vk_on_socket != NULL && (e = vk_on_socket()) != 0) {
		vk_stats.sock_fail++;
		TR(0xA0, e, 0, "socket() -> -1 errno %d", e);
		errno = e;
		return (-1);
	}
	s = vk_alloc();
	s->cstate = 0;
	s->from_socket = 1;
	TR(0xA2, s->fd, 0, "socket() -> fd %d", s->fd);
	return (s->fd);
}

int
__wrap_connect(int fd, const struct sockaddr * sa, socklen_t salen)
{
	struct vsock * s = vk_sock(fd);
	struct vk_connect_answer a;
	int port = 0;

	(void)salen;
	if (s == NULL) {
		errno = EBADF;
		return (-1);
	}
	if (sa->sa_family == AF_INET)
		port = ntohs(((const struct sockaddr_in *)sa)->sin_port);
	vk_stats.connect_calls++;
	memset(&a, 0, sizeof(a));
	if (vk_on_connect == NULL || vk_on_connect(s, port, &a) == 0) {
		a.rc_errno = 0;
	}
	if (a.rc_errno == 0) {
		s->cstate = 2;
		TR(0xA3, fd, port, "connect(fd=%d, port=%d) -> 0", fd, port);
		return (0);
	}
	if ((a.rc_errno == EINPROGRESS || a.rc_errno == EINTR) && !s->nonblock) {
		/* A blocking descriptor: the kernel makes the caller wait for the conclusion. */
		vk_stats.connect_blocking++;
		if (a.never) {
			if (vk_block_oracle != NULL)
				sim_viol(vk_block_oracle, "blocking-connect", "connect(2) on a descriptor that is not non-blocking, to an address that never answers: the whole process is stuck inside the call (no timer, no other event can run)");
			sim_internal("vkernel: blocking connect that never concludes");
		}
		vk_now_ns += a.delay_ns;
		TR(0xA7, fd, port, "connect(fd=%d, port=%d) on a BLOCKING descriptor: waited %lu ns -> %d", fd, port, (unsigned long)a.delay_ns, a.async_result_errno);
		if (a.async_result_errno == 0) {
			s->cstate = 2;
			return (0);
		}
		errno = a.async_result_errno;
		return (-1);
	}
	if (a.rc_errno == EINPROGRESS || a.rc_errno == EINTR) {
		s->cstate = 1;
		if (!a.never) {
			struct pev e = { PE_CONNDONE, a.delay_ns, a.async_result_errno, -1 };
			int dd = simalloc_depth;

			/* the conclusion of the connect comes before anything the peer does afterwards */
			simalloc_depth = 0;
			s->ev = realloc(s->ev, (size_t)(s->nev + 2) * sizeof(struct pev));
			memmove(s->ev + s->evpos + 1, s->ev + s->evpos, (size_t)(s->nev - s->evpos) * sizeof(struct pev));
			s->ev[s->evpos] = e;
			s->nev++;
			s->ev_base_ns = vk_now_ns;
			simalloc_depth = dd;
		}
		TR(0xA4, fd, port, "connect(fd=%d, port=%d) -> -1 %s (%s)", fd, port, a.rc_errno == EINTR ? "EINTR" : "EINPROGRESS",
		    a.never ? "never concludes" : a.async_result_errno ? "will fail" : "will succeed");
		errno = a.rc_errno;
		return (-1);
	}
	TR(0xA5, fd, port, "connect(fd=%d, port=%d) -> -1 errno %d", fd, port, a.rc_errno);
	errno = a.rc_errno;
	return (-1);
}

int
__wrap_bind(int fd, const struct sockaddr * sa, socklen_t salen)
{

	(void)sa;
	(void)salen;
	if (vk_sock(fd) == NULL) {
		errno = EBADF;
		return (-1);
	}
	if (vk_on_bind != NULL) {
		int e = vk_on_bind(vk_sock(fd));

		if (e != 0) {
			TR(0xAB, fd, e, "bind(fd=%d) -> -1 errno %d", fd, e);
			errno = e;
			return (-1);
		}
	}
	return (0);
}

int
__wrap_fcntl(int fd, int cmd, ...)
{
	va_list ap;
	long arg;

	va_start(ap, cmd);
	arg = va_arg(ap, long);
	va_end(ap);
	if (vk_sock(fd) != NULL) {
		struct vsock * s = vk_sock(fd);

		if (cmd == F_SETFL) {
			s->nonblock = (arg & O_NONBLOCK) ? 1 : 0;
			return (0);
		}
		if (cmd == F_GETFL)
			return (O_RDWR | (s->nonblock ? O_NONBLOCK : 0));
		return (0);
	}
	return (__real_fcntl(fd, cmd, arg));
}

int
__wrap_getsockopt(int fd, int level, int name, void * val, socklen_t * len)
{
	struct vsock * s = vk_sock(fd);

	(void)level;
	if (s == NULL) {
		errno = EBADF;
		return (-1);
	}
	if (vk_getsockopt_fail_at >= 0 && (int)vk_stats.getsockopt_calls++ == vk_getsockopt_fail_at) {
		/* the system call itself fails (kernel out of buffers): the pending socket error stays unread */
		vk_stats.getsockopt_failed++;
		TR(0xA8, fd, ENOBUFS, "getsockopt(fd=%d, SO_ERROR) -> -1 ENOBUFS (injected)", fd);
		errno = ENOBUFS;
		return (-1);
	}
	if (name == SO_ERROR && *len >= sizeof(int)) {
		*(int *)val = s->so_error;
		TR(0xA6, fd, s->so_error, "getsockopt(fd=%d, SO_ERROR) -> %d", fd, s->so_error);
		s->so_error = 0;
		*len = sizeof(int);
		return (0);
	}
	errno = ENOPROTOOPT;
	return (-1);
}

int
__wrap_setsockopt(int fd, int level, int name, const void * val, socklen_t len)
{

	(void)level;
	(void)name;
	(void)val;
	(void)len;
	if (vk_sock(fd) == NULL) {
		errno = EBADF;
		return (-1);
	}
	return (0);
}

int
__wrap_accept(int fd, struct sockaddr * sa, socklen_t * salen)
{
	struct vsock * s = vk_sock(fd), * c;
	struct tdir d;

	(void)sa;
	(void)salen;
	if (s == NULL || !s->listening) {
		errno = EBADF;
		return (-1);
	}
	d = tape_next(&s->t_accept);
	switch (d.kind) {
	case TD_EAGAIN:
		vk_stats.accept_soft++;
		TR(0xA7, fd, EAGAIN, "accept(fd=%d) -> -1 EAGAIN", fd);
		errno = EAGAIN;
		return (-1);
	case TD_EINTR:
		vk_stats.accept_soft++;
		TR(0xA7, fd, EINTR, "accept(fd=%d) -> -1 EINTR", fd);
		errno = EINTR;
		return (-1);
	case TD_ECONNABORTED:
		vk_stats.accept_soft++;
		if (s->backlog > 0)
			s->backlog--;
		TR(0xA7, fd, ECONNABORTED, "accept(fd=%d) -> -1 ECONNABORTED", fd);
		errno = ECONNABORTED;
		return (-1);
	case TD_ERRNO:
		vk_stats.accept_err++;
		s->recv_err_seen = 1;
		TR(0xA8, fd, d.arg, "accept(fd=%d) -> -1 errno %ld (hard)", fd, (long)d.arg);
		errno = (int)d.arg;
		return (-1);
	default:
		break;
	}
	if (s->backlog == 0) {
		vk_stats.accept_soft++;
		TR(0xA7, fd, EAGAIN, "accept(fd=%d) -> -1 EAGAIN (nobody waiting)", fd);
		errno = EAGAIN;
		return (-1);
	}
	s->backlog--;
	c = vk_new_stream();
	c->txwin = 65536;
	TR(0xA9, fd, c->fd, "accept(fd=%d) -> fd %d", fd, c->fd);
	return (c->fd);
}

int
__wrap_close(int fd)
{
	struct vsock * s = vk_sock(fd);

	if (s == NULL)
		return (__real_close(fd));
	TR(0xAA, fd, 0, "close(fd=%d)", fd);
	if (vk_on_close != NULL)
		vk_on_close(s);
	s->closed_by_app = 1;
	s->used = 0;
	if (vk_close_fail_at >= 0 && (int)vk_stats.close_calls++ == vk_close_fail_at) {
		/* close(2) reports an error (EIO, EINTR) although the descriptor is gone, as on Linux */
		vk_stats.close_failed++;
		TR(0xAC, fd, EIO, "close(fd=%d) -> -1 EIO (injected; the descriptor is closed all the same)", fd);
		errno = EIO;
		return (-1);
	}
	return (0);
}


/* The library's warnings may be switched to syslog mode (warnp_syslog): nothing leaves the process. */
uint64_t vk_syslog_calls;

extern char __executable_start, end;	/* linker-defined: the image of the program, constants included */

void
__wrap_syslog(int prio, const char * fmt, ...)
{
	const char * p;

	(void)prio;
	vk_syslog_calls++;
	/*
	 * syslog(3) interprets its second argument as a printf format.  A format that is not one of the program's
	 * constants (it lives on the stack or the heap, i.e. it was assembled at run time) and contains conversion
	 * specifications makes the real function fetch arguments that were never passed.
	 */
	if (fmt >= &__executable_start && fmt < &end)
		return;
	for (p = fmt; (p = strchr(p, '%')) != NULL; p += 2) {
		if (p[1] == '%')
			continue;
		if (vk_block_oracle != NULL) {
			char o[40];

			snprintf(o, sizeof(o), "%.3s.crash", vk_block_oracle);
			sim_viol(o, "syslog-format", "syslog() was handed a run-time assembled format string containing conversions (\"%.60s\"): the real function would read arguments that do not exist", fmt);
			return;
		}
		sim_internal("syslog format assembled at run time");
	}
}

void
__wrap_openlog(const char * ident, int opt, int fac)
{

	(void)ident;
	(void)opt;
	(void)fac;
}

void
__wrap_closelog(void)
{
}
