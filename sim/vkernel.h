/*
 * vkernel.h -- simulated kernel for stream sockets: descriptor table, scripted
 * peers, answer tapes, poll with discrete-event time.  Semantics: DESIGN.md
 * appendix B.  Used by the netio and http engines.
 */
#ifndef VKERNEL_H_
#define VKERNEL_H_

#include <stddef.h>
#include <stdint.h>

#include "sim.h"

#define VK_MAXSOCK 128
#define VK_T0_NS (1000ULL * 1000000000ULL)

/* Script events of a peer (executed in order; each waits `delay' after the previous one fired). */
enum { PE_DELIVER, PE_EOF, PE_RST, PE_DRAIN, PE_CLIENT, PE_CONNDONE, PE_HUPFLAG };
struct pev {
	int type;
	uint64_t delay_ns;
	int64_t arg;		/* bytes / errno */
	int64_t need_tx;	/* fires only once the application has sent this many bytes (-1: no condition) */
};

/* Tape directives (one consumed per call of that kind on that socket). */
enum { TD_DEFAULT, TD_CAP, TD_EAGAIN, TD_EINTR, TD_ERRNO, TD_ECONNABORTED };
struct tdir { int kind; int64_t arg; };
struct tape { struct tdir * d; int n, pos; };

struct vsock {
	int used, fd, id;
	int listening;
	/* receive side */
	uint8_t * rx;		/* the peer's whole output stream */
	size_t rxlen;		/* its length */
	size_t rxavail;		/* bytes the peer has sent so far */
	size_t rxpos;		/* bytes handed to recv so far (the kernel's log of the stream) */
	int rx_eof;		/* peer closed its sending side (after rxavail bytes) */
	int rx_err;		/* pending error (errno), reported by the next recv/send */
	int hup;		/* report POLLHUP */
	/* send side */
	uint8_t * tx;		/* everything accepted by send, in order */
	size_t txlen, txcap;
	size_t txwin;		/* room in the send buffer right now */
	int peer_gone;		/* send fails with EPIPE */
	/* connect */
	int cstate;		/* 0 n/a, 1 in progress, 2 connected, 3 failed (so_error pending) */
	int so_error;
	int addr_idx;		/* index of the address this socket was connected to, or -1 */
	/* accept */
	int backlog;
	/* script */
	struct pev * ev;
	int nev, evpos;
	uint64_t ev_base_ns;	/* time at which the previous event fired */
	/* tapes */
	struct tape t_recv, t_send, t_accept;
	/* accounting for oracles */
	uint64_t n_recv, n_send;	/* calls so far */
	int recv_eof_seen;	/* a recv returned 0 (since last reset by the engine) */
	int recv_err_seen;	/* a recv returned a hard error */
	int send_err_seen;
	int recv_soft;		/* EAGAIN/EINTR answers given */
	int send_soft;
	int closed_by_app;
	int rep_in, rep_out;	/* the latest poll reported this (non-spuriously); self-check of truthfulness */
	int sigpipe;		/* a send without MSG_NOSIGNAL hit a closed peer */
	int nonblock;		/* O_NONBLOCK is set (fcntl F_SETFL) */
	int from_socket;	/* created by socket(2), i.e. by the code under test (descriptor accounting) */
	/* bulk transfer (not logged byte by byte): bytes are identified by their address in the caller's buffer */
	const uint8_t * bulk_base;
	size_t bulk_len, bulk_sent;
	int bulk_misordered;
};

extern struct vsock vk_socks[VK_MAXSOCK];
extern uint64_t vk_now_ns;
extern uint64_t vk_tick_ns;
extern int vk_fd_base;
extern int vk_in_run;			/* engine sets while events_run is executing */
extern const struct pline * vk_polltape;	/* fault tape for poll calls of the current run step */
extern int vk_polltape_pos;
extern int vk_faults_off;		/* drain: ignore all tapes */

/* statistics (engine copies into R->cnt) */
struct vkstats {
	uint64_t polls, blocks, poll_eintr, poll_spurious, recv_calls, recv_short, recv_eagain, recv_eintr,
	    recv_err, recv_eof, send_calls, send_short, send_eagain, send_eintr, send_err, accept_soft,
	    accept_err, connect_calls, connect_blocking, bare_err, getsockopt_calls, getsockopt_failed, close_calls, close_failed, sock_fail, hup_reported, script_events, bytes_in, bytes_out, deadlock_breaks;
};
extern struct vkstats vk_stats;

struct vsock * vk_sock(int fd);			/* NULL if fd is not a live virtual descriptor */
struct vsock * vk_new_stream(void);		/* a connected stream socket (lowest free fd) */
struct vsock * vk_new_listener(void);
void vk_set_rx(struct vsock *, uint8_t * stream, size_t len);
void vk_script(struct vsock *, const struct pev * ev, int nev);
void vk_tape(struct tape *, const struct tdir * d, int n);
void vk_pump(void);				/* scheduling point: fire due script events */
void vk_open_all(void);				/* drain: deliver everything, open windows, clear faults */
uint64_t vk_now_us(void);

/* Hooks the engine may set. */
extern void (* vk_on_poll)(void * fds, unsigned long n, int timeout);	/* called at poll entry (oracles) */
extern int (* vk_on_deadlock)(void);	/* poll(-1) with nothing scheduled: return 1 after arranging a wake-up */
/* connect behaviour lookup: engine decides the answer for connect(fd, port) */
struct vk_connect_answer { int rc_errno; int async_result_errno; uint64_t delay_ns; int never; };
extern int (* vk_on_connect)(struct vsock *, int port, struct vk_connect_answer *);
extern int (* vk_on_socket)(void);
extern int (* vk_on_bind)(struct vsock *);	/* return errno to fail bind(), 0 to succeed */	/* return errno to fail socket(), 0 to succeed */
extern void (* vk_on_close)(struct vsock *);
extern int vk_getsockopt_fail_at, vk_close_fail_at;	/* index of the call (over the run) that fails, or -1 */
extern int vk_bare_err;		/* 1: a pending socket error is reported by poll as POLLERR alone (no POLLIN/POLLOUT) */
extern const char * vk_block_oracle;	/* oracle id for "the process is stuck in a blocking system call" (engine sets it) */
extern void (* vk_on_recv)(struct vsock *, long result, int err);
extern const void * vk_last_recv_buf;	/* buffer address of the recv call being reported */
extern size_t vk_last_recv_len;
extern void (* vk_on_send)(struct vsock *, const void * buf, long result, int err);

#endif
