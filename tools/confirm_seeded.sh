#!/bin/sh
# usage: confirm_seeded.sh <dir with patch.diff and run_demo.sh> <logfile>
# Confirms in a scratch worktree: patch applies, tree builds, suite passes, demo PASS on pristine / FAIL on changed.
D=$(cd "$1" && pwd); LOG=$2
W=$(mktemp -d /tmp/confirm-XXXXXX)
{
echo "== $D"
git -C /repo worktree add --detach "$W/wt" HEAD >/dev/null 2>&1 || { echo "RESULT worktree-failed"; exit 1; }
cd "$W/wt"
echo "-- demo on pristine"; sh "$D/run_demo.sh" "$W/wt" >"$W/demo0.log" 2>&1; P=$?; tail -3 "$W/demo0.log"; echo "demo_pristine_exit=$P"
git apply "$D/patch.diff" || { echo "RESULT apply-failed"; }
echo "-- make"; make -j8 >"$W/make.log" 2>&1; M=$?; echo "make_exit=$M"
echo "-- make test"; make test >"$W/test.log" 2>&1; T=$?; if [ $T -ne 0 ]; then echo "(first run failed: $(grep -i FAIL "$W/test.log" | head -2 | tr '\n' ' '); timing-sensitive scenarios fail under load: one retry)"; make test >"$W/test.log" 2>&1; T=$?; fi; echo "maketest_exit=$T"; grep -c "SUCCESS" "$W/test.log"; grep -i "FAIL" "$W/test.log" | head -5
make clean >/dev/null 2>&1
echo "-- demo on changed"; sh "$D/run_demo.sh" "$W/wt" >"$W/demo1.log" 2>&1; C=$?; tail -3 "$W/demo1.log"; echo "demo_changed_exit=$C"
if [ $P -eq 0 ] && [ $M -eq 0 ] && [ $T -eq 0 ] && [ $C -ne 0 ]; then echo "RESULT confirmed"; else echo "RESULT NOT-confirmed"; fi
cd /; git -C /repo worktree remove --force "$W/wt"; rm -rf "$W"
} >"$LOG" 2>&1
