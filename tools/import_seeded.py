#!/usr/bin/env python3
"""Copy confirmed sub-agent changes from /tmp/wt/<prop>/_out/<n> into /verif/seeded/<prop>-<n>/ with meta.json."""
import json
import os
import shutil
import sys

NEEDS = {
    'C04-1': 'one dispatch round in which poll reports fd ready for a direction, an earlier-scanned callback cancels that direction while the other direction keeps the pollfd slot, and the direction is re-registered before the scan reaches the slot (stale revents bit after events_network_cancel)',
    'C04-2': 'timer registered/reset at a clock phase where now.tv_usec + timeout.tv_usec >= 1000000 (carry into seconds dropped: fires one second early)',
    'C05-1': 'a run entered with >= 2 immediates pending where a callback in the initial drain loop returns non-zero while another immediate is queued (that immediate is dequeued and forgotten)',
    'C05-2': 'events_timer_reset of a non-leaf timer that pushes its deadline past a heap child (record updated after the sift-down)',
    'C06-1': 'network_connect_timeo with an address (not the last) that fails asynchronously; the old per-address timer stays armed and later abandons a healthy address or fires on a freed cookie',
    'C06-2': 'recv(2) answering EINTR during a network_read request (treated as a hard error on platforms where EAGAIN == EWOULDBLOCK)',
    'C07-1': 'consume >= 1 byte, then netbuf_read_wait for more than the current buffer size so the buffer grows while bufpos != 0 (datalen not reduced)',
    'C07-2': 'one queued write buffer going out in two or more send() calls (short send): completion reports the last send length, writer marks itself failed',
    'C08-1': 'a netbuf_read_wait that starts with unconsumed bytes in the buffer followed by a burst larger than the remaining space (recv length computed from bufpos instead of datalen: heap overflow)',
    'C08-2': 'body limit exceeded after some body bytes were already accumulated (later chunk / later read-to-EOF piece): body pointer left dangling with bodylen == -1',
    'C09-1': 'chunk-size line (or header block after a 1xx) cut by the end of the full 4096-byte reader buffer with earlier bytes consumed: compaction memmove copies from the wrong place',
    'C09-2': 'close-framed body arriving in >= 3 reads with body size <= limit < 2 x body size (limit compared with allocated capacity instead of length)',
    'C10-1': 'peer value exactly equal to the group-14 prime p (sanity check accepts p)',
    'C10-2': 'a result with a leading zero byte (probability 2^-8 per exponentiation, or peer 1 / p+1): output not left-padded',
    'C11-1': 'OS entropy source failing at exactly the instantiation read, then a further crypto_entropy_read call (succeeds from the unseeded state)',
    'C11-2': 'read(2) on the entropy device returning fewer bytes than requested (short read lands at offset 0 again)',
    'C12-1': 'elastic queue: a second front-compaction whose shrink really reallocates downwards with live records left (shrink before copy-down)',
    'C12-2': 'elastic array whose byte length is not a multiple of the record size passed to shrink (mixed record sizes)',
    'C13-1': 'ptrheap_delete by handle at depth >= 3 where the moved last element is smaller than both parent and grandparent (climbs only one level)',
    'C13-2': 'ptrheap_create from a non-heap-ordered array with a record-cookie callback, then a by-handle operation (stale / missing position reports)',
    'C14-1': 'allocation failure exactly at the pollfd-array growth realloc (0, 16, 32... descriptors registered) followed by a later successful registration of a new descriptor (fds_alloc updated before the realloc)',
    'C14-2': 'realloc refused during a shrink that crosses the quarter-of-allocation threshold, then re-use of the container (new size not recorded when the shrink realloc fails)',
    'C19-1': 'secret key of exactly 60 characters ("AWS4"+secret is 64 bytes: HMAC key wrongly hashed)',
    'C19-2': 'UTC day rolling over between two time() calls inside one aws_sign_s3_querystr call (scope date from the first sample, x-amz-date from the second)',
    'C20-1': 'failure inside blinded_modexp after the private exponent BN exists (entropy failure for the blinding, or a later OpenSSL allocation failure): priv_bn freed without clearing',
    'C20-2': 'key file whose secret line was read and whose failure is detected after the read loop (missing ACCESS_KEY_ID, or fclose failing): secret freed without wiping',
}


def main():
    for logname in sorted(os.listdir('/tmp/confirm-logs')):
        log = open('/tmp/confirm-logs/' + logname).read()
        key = logname[:-4]
        prop, n = key.split('-')
        if 'RESULT confirmed' not in log:
            print(key, 'NOT confirmed')
            continue
        src = '/tmp/wt/%s/_out/%s' % (prop, n)
        dst = '/verif/seeded/%s' % key
        if os.path.exists(os.path.join(dst, 'meta.json')):
            continue
        os.makedirs(dst, exist_ok=True)
        for fn in os.listdir(src):
            p = os.path.join(src, fn)
            if os.path.isfile(p) and os.path.getsize(p) < 200000 and not fn.endswith('.log') and not fn.endswith('.rc'):
                shutil.copy(p, dst)
        meta = {
            'property': prop,
            'id': key,
            'origin': 'independent sub-agent given only the property text and a scratch worktree',
            'needs_to_manifest': NEEDS.get(key, 'see README.md'),
            'confirmed_by': 'tools/confirm_seeded.sh in a fresh scratch worktree of /repo: demo PASS on pristine, patch applies, make ok, '
                            'make test exit 0 (25 scenarios SUCCESS), demo FAIL on changed tree',
            'confirmation_log': [l for l in log.splitlines() if l.strip()][:40],
            'detected_by': None,
        }
        json.dump(meta, open(os.path.join(dst, 'meta.json'), 'w'), indent=1)
        print(key, 'imported')


if __name__ == '__main__':
    sys.exit(main())
