#!/usr/bin/env python3
"""Import confirmed wave-2 sub-agent changes from /tmp/wt2/<prop>/_out/<n> into /verif/seeded/<prop>-w2-<n>/."""
import json, os, shutil

# id -> (needs to manifest, property whose check catches it, note)
W2 = {
 'C04-1': ('growpollfd keeps a stale revents bit: last pollfd entry ready for both directions; its read callback cancels a lower slot (compaction) and registers a write on a new descriptor that lands in the stale tail slot under the scan cursor', 'C04', ''),
 'C04-2': ('tvcmp by subtraction: a timer 2^31 or more seconds away while something else ends the poll', 'C04', 'caught only after far-away deadlines (around 2^31/2^32 s, a century) were added to the evloop generator'),
 'C04-3': ('clearbit copies only fd/events on compaction: a descriptor with pending hang-up is cancelled from a higher-slot callback before the scan reaches it; the moved idle descriptor inherits ERR/HUP', 'C04', ''),
 'C05-1': ('poll-timeout clamp test weakened: earliest timer between 2147483.648 s and 2147484 s away makes the millisecond value wrap negative (poll blocks forever with a timer pending)', 'C05', 'caught only after deadlines around the INT_MAX-ms clamp were generated; patch.diff is rebased onto the fix of the over-clamp finding (original in patch.orig.diff)'),
 'C05-2': ('ptrheap_delete sifts up from the wrong index: >= 12 timers pending and a cancel at heap depth 3', 'C05', 'caught only after timer bursts (12-50 timers, then cancels/resets) were added'),
 'C05-3': ('events_spin leaves interrupt_requested set when the same callback interrupts and returns non-zero; the next call runs nothing', 'C05', ''),
 'C06-1': ('events_network_register leaves the slot non-NULL when the pollfd growth realloc fails (17th descriptor): later requests on that descriptor get EEXIST', 'C14', 'needs an allocation failure: decided by C14 (C04.retval fires after the injected failure -> C14.model); C06 has no allocator faults in its quantifier'),
 'C06-2': ('network_read error path cancels instead of freeing: an overlapping read refused with EEXIST cancels the healthy pending read', 'C06', 'caught only after overlapping requests were added to the netio generator'),
 'C06-3': ('tryconnect error path forgets C->s = -1: OOM while launching a later address reports a closed descriptor instead of -1', 'C14', 'needs an allocation failure in a retry: decided by C14 (C06.conn.result bad-fd after the injected failure)'),
 'C07-1': ('poke dequeues before network_write: if network_write cannot start (OOM) the head buffer is lost', 'C14', 'decided by C14 (leak of the orphaned buffer)'),
 'C07-2': ('network_read docallback returns the cookie to the pool before using it: 17+ reads completing back to back and the pool-growth malloc failing', 'C14', 'caught only after the many-sockets scenario (17-30 sockets) and denser enumeration (all indices up to 64 per step) were added'),
 'C07-3': ('netbuf_read_resize_buffer records the new size before malloc: failed growth, reader reused, recv told the buffer is larger than it is', 'C14', 'C07.rd.window recv-beyond-buffer after the injected failure'),
 'C08-1': ('chunk-limit check rewritten so that it wraps: second or later chunk with a size within bodylen of 2^64', 'C08', 'caught only after hostile chunk-size lines were aimed at real (also later) chunk-size lines and values such as fffffffffffffffd / -3 were added'),
 'C08-2': ('netbuf_write_free walks the queue with STAILQ_FOREACH while freeing: request body still queued when the request ends (server answers before reading)', 'C08', 'ASan use-after-free'),
 'C08-3': ('network_connect_cancel tests the wrong cookie: all addresses fail synchronously, request cancelled before the loop runs, stale immediate event fires', 'C08', ''),
 'C09-1': ('Content-Length parsed with base auto-detection: value with a leading zero (octal)', 'C09', ''),
 'C09-2': ('netbuf_write_reserve sizes the buffer min(len,4096) instead of max: request head or body over 4096 bytes', 'C09', ''),
 'C09-3': ('reader growth frees the old buffer before copying: header block over 4096 bytes', 'C09', ''),
 'C10-1': ('sanity check compares only the low halves of 64-bit words', 'C10', 'caught by perturbing single bytes of p-1/p/p+1'),
 'C10-2': ('generate_pub caches a static BIGNUM and frees it on failure: success, failed generate_pub, generate_pub again', 'C10', 'caught only after second-use-after-failure steps were added to the DH scenario (ASan use-after-free)'),
 'C10-3': ('pad length kept in a uint8_t: result 0 (peer 0 or p) leaves the output buffer unwritten', 'C10', 'output buffers are pre-dirtied'),
 'C11-1': ('reseed check hoisted out of the chunk loop: request above 65536 bytes straddling the end of a reseed interval', 'C11', ''),
 'C11-2': ('failed reseed still resets the counter', 'C11', ''),
 'C11-3': ('instantiated flag replaced by counter test + state initialised before the seed read', 'C11', ''),
 'C12-1': ('append overflow check in whole records: mixed record sizes, non-power-of-two reclen, nrec exactly SIZE_MAX/reclen - size/reclen', 'C12', 'caught only after boundary record counts (append_edge) were generated'),
 'C12-2': ('queue compaction uses resize instead of shrink: refused shrinking realloc, then add', 'C12', ''),
 'C12-3': ('mpool_free pushes the object even when stack doubling failed', 'C14', 'needs an allocation failure at the pool-stack malloc: decided by C14'),
 'C13-1': ('elasticarray_shrink ignores a failed shrink: refused realloc inside a heap delete, then add', 'C13', 'caught only after refused shrinks were enabled for heap / timer-queue steps'),
 'C13-2': ('ptrheap_delete sifts up from the wrong index', 'C13', ''),
 'C13-3': ('tvcmp by subtraction: times 2^31 or more seconds apart', 'C13', 'caught only after far-apart times were generated for the timer queue'),
 'C14-1': ('growpollfd assigns the realloc result to the global: growth at the 17th descriptor fails', 'C14', ''),
 'C14-2': ('mpool_free drops the object when stack doubling fails (leak)', 'C14', ''),
 'C14-3': ('netbuf_read_resize_buffer records the new size before malloc', 'C14', ''),
 'C19-1': ('64-byte HMAC key hashed (secret of exactly 60 characters)', 'C19', ''),
 'C19-2': ('scope date formatted with the ISO week-based year: days where ISO year and calendar year differ', 'C19', ''),
 'C19-3': ('dynamodb variant hashes bodylen bytes of an absent body', 'C19', 'caught only after absent bodies were passed to all four variants'),
 'C20-1': ('key-file reader skips the scrub when the final fclose fails', 'C20', ''),
 'C20-2': ('BN_free(blinding_bn) on an error label', 'C20', ''),
 'C20-3': ('clear transposed between two unwind labels; entropy read moved earlier', 'C20', ''),
}

def main():
    for key, (needs, prop, note) in sorted(W2.items()):
        p, n = key.split('-')
        logp = '/tmp/confirm-logs2/%s.log' % key
        if not os.path.exists(logp):
            print(key, 'no confirmation log yet'); continue
        log = open(logp, errors='replace').read()
        if 'RESULT confirmed' not in log:
            print(key, 'NOT confirmed'); continue
        src = '/tmp/wt2/%s/_out/%s' % (p, n)
        dst = '/verif/seeded/%s-w2-%s' % (p, n)
        os.makedirs(dst, exist_ok=True)
        for fn in os.listdir(src):
            fp = os.path.join(src, fn)
            if os.path.isfile(fp) and os.path.getsize(fp) < 200000 and not fn.endswith('.log') and not fn.endswith('.rc'):
                shutil.copy(fp, dst)
        meta = {
            'property': prop, 'written_for_property': p, 'id': key + ' (wave 2)',
            'origin': 'independent sub-agent (second wave: asked for changes that are hard for randomised API-driving tools), given only the property text and a scratch worktree',
            'needs_to_manifest': needs,
            'confirmed_by': 'tools/confirm_seeded.sh in a fresh scratch worktree of /repo HEAD: demo PASS on pristine, patch applies, make ok, make test exit 0, demo FAIL on changed tree',
            'confirmation_log': [l for l in log.splitlines() if l.strip()][:40],
            'detection_note': note,
        }
        json.dump(meta, open(os.path.join(dst, 'meta.json'), 'w'), indent=1)
        print(key, 'imported ->', prop)

main()
