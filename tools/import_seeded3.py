#!/usr/bin/env python3
"""Import confirmed wave-3 sub-agent changes from /tmp/wt3/<prop>/_out/<n> into /verif/seeded/<prop>-w3-<n>/."""
import json, os, shutil

# id -> (needs to manifest, property whose check catches it, note)
W2 = {
 'C04-1': ('timerqueue_increase copies sizeof(pointer) bytes: only tv_sec of the new deadline is stored (reset with a different microsecond phase fires early)', 'C04', ''),
 'C04-2': ('events_network_register adds the pollfd entry before allocating the event record and drops the unwind: failed record allocation leaves an orphaned poll bit', 'C14', 'needs an allocation failure: decided by C14 (leak of the socket list / pollfd array at exit)'),
 'C04-3': ('events_timer_register error path frees the pooled record twice: later registrations share one record', 'C14', 'needs an allocation failure: decided by C14 (C04.live after the injected failure)'),
 'C05-1': ('interrupt test at the top of the dispatch loop removed: a request made while blocked in poll (or before the call) still lets one socket/timer callback run', 'C05', 'caught only after the interrupt oracle was tightened to what the loop structure allows (request inside the first select of a pass, or pending at entry without immediates: nothing more may run)'),
 'C05-2': ('tvcmp by subtraction', 'C05', ''),
 'C05-3': ('bare POLLERR no longer dispatches the callback', 'C05', ''),
 'C06-1': ('growpollfd keeps stale revents: a connect started from a callback inherits readiness', 'C04', 'same defect as C04-w2-1: decided by C04 (C04.eligible)'),
 'C06-2': ('network_write re-arm returns the registration result instead of reporting -1 through the callback', 'C14', 'needs an allocation failure at the re-registration: decided by C14'),
 'C06-3': ('network_connect_cancel tests C->s > 0: a socket with descriptor number 0 is not closed and its event not cancelled', 'C06', 'caught only after descriptor numbering from 0 was generated (a daemon with fds 0-2 closed)'),
 'C07-1': ('poke without the failed guard: reserve/consume after a transport failure sends queued data', 'C07', ''),
 'C07-2': ('netbuf_read_wait records callback/cookie after the immediate path: a wait satisfied from buffered data fires the previous callback', 'C07', ''),
 'C07-3': ('network_write_cancel cancels the READ registration: freeing a writer with a write in flight kills the reader on the same descriptor', 'C07', ''),
 'C08-1': ('warn()/warnx() in syslog mode write a NUL at the untruncated length: server text longer than 4095 characters quoted in a warning overflows the stack buffer', 'C08', 'caught only after syslog mode (warnp_syslog) and kilobyte-long malformed status lines / Content-Length values were generated'),
 'C08-2': ('1xx discard leaves the freed header array pointer: 1xx with a header, then the request ends before the next header block', 'C08', ''),
 'C08-3': ('dofailed forgets C->s = -1: last address fails asynchronously, closed descriptor handed to http.c', 'C08', ''),
 'C09-1': ('http_findheader matches by prefix: a header named Content-Length-Original / Transfer-Encoding-Supported takes over framing', 'C09', 'caught only after near-miss header names were generated'),
 'C09-2': ('Transfer-Encoding compared with strcmp: "gzip, chunked" no longer chunked', 'C09', 'caught only after coding lists ending in chunked were generated'),
 'C09-3': ('HEAD detected case-insensitively: method "head" loses its body', 'C09', 'caught only after methods differing from HEAD only in case were generated'),
 'C10-1': ('ERR_peek_error used as failure test: an error record left by an earlier failed call makes later calls fail', 'C10', 'caught only after the harness stopped clearing the OpenSSL error queue between calls'),
 'C10-2': ('output buffer zeroed before the peer value is read: in-place compute', 'C10', 'caught only after in-place calls were generated'),
 'C10-3': ('cached modulus left half-built when the first DH operation of the process fails at one allocation', 'C10', 'caught only after a failing first operation was generated'),
 'C11-1': ('EOF after a partial read of the entropy device treated as success', 'C11', ''),
 'C11-2': ('reseed counter advances per request instead of per generate call', 'C11', ''),
 'C11-3': ('reseed restarts the counter at 0', 'C11', ''),
 'C12-1': ('truncate of an empty array keeps alloc: arrays of 1-3 bytes, shrink to zero, truncate, small append writes through NULL', 'C12', ''),
 'C12-2': ('elasticqueue_get bounds check wraps for positions near SIZE_MAX after a delete', 'C12', 'caught only after huge positions were queried'),
 'C12-3': ('shrink without the overflow guard: record counts whose product with the record size wraps', 'C12', 'caught only after wrapping record counts (k*2^64/reclen + r) were generated'),
 'C13-1': ('ptrheap_increasemin does not report moved positions', 'C13', ''),
 'C13-2': ('timerqueue_increase of an entry tying with the minimum uses increasemin', 'C13', ''),
 'C13-3': ('elasticarray resize records alloc before realloc', 'C14', 'needs an allocation failure: decided by C14'),
 'C14-1': ('events_network_register reordered without unwind (orphaned pollfd entry, POLLNVAL abort, leak at exit)', 'C14', ''),
 'C14-2': ('addbody assigns the realloc result directly: partial body leaked when growth fails', 'C14', ''),
 'C14-3': ('poke requeues at the tail after a failed network_write: data reordered', 'C14', ''),
 'C19-1': ('signing key cached per date/region/service but not per secret', 'C19', 'caught only after scope components were drawn from a tiny pool so that scopes recur with different secrets'),
 'C19-2': ('scope date formatted in local time', 'C19', 'caught only after non-UTC time zones were set for the process'),
 'C19-3': ('asprintf first-try buffer off by one at exactly 1024 characters', 'C19', 'caught only after secrets of 1018-1022 characters ("AWS4"+secret = 1024) were generated; within the quantifier only the secret has no length bound'),
 'C20-1': ('AES key wiped with sizeof(pointer)', 'C20', ''),
 'C20-2': ('AES-CTR stream wiped only if bytes were processed since the last init', 'C20', ''),
 'C20-3': ('MD5_Final clears field by field and misses the high counter word', 'C20', ''),
}

def main():
    for key, (needs, prop, note) in sorted(W2.items()):
        p, n = key.split('-')
        logp = '/tmp/confirm-logs3/%s.log' % key
        if not os.path.exists(logp):
            print(key, 'no confirmation log yet'); continue
        log = open(logp, errors='replace').read()
        if 'RESULT confirmed' not in log:
            print(key, 'NOT confirmed'); continue
        src = '/tmp/wt3/%s/_out/%s' % (p, n)
        dst = '/verif/seeded/%s-w3-%s' % (p, n)
        os.makedirs(dst, exist_ok=True)
        for fn in os.listdir(src):
            fp = os.path.join(src, fn)
            if os.path.isfile(fp) and os.path.getsize(fp) < 200000 and not fn.endswith('.log') and not fn.endswith('.rc'):
                shutil.copy(fp, dst)
        meta = {
            'property': prop, 'written_for_property': p, 'id': key + ' (wave 3)',
            'origin': 'independent sub-agent (third wave: asked for legal-but-unusual inputs, rarely used entry points, state surviving between uses, different from all earlier changes), given only the property text and a scratch worktree',
            'needs_to_manifest': needs,
            'confirmed_by': 'tools/confirm_seeded.sh in a fresh scratch worktree of /repo HEAD: demo PASS on pristine, patch applies, make ok, make test exit 0, demo FAIL on changed tree',
            'confirmation_log': [l for l in log.splitlines() if l.strip()][:40],
            'detection_note': note,
        }
        json.dump(meta, open(os.path.join(dst, 'meta.json'), 'w'), indent=1)
        print(key, 'imported ->', prop)

main()
