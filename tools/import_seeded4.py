#!/usr/bin/env python3
"""Import confirmed wave-4 sub-agent changes from /tmp/wt4/<prop>/_out/<n> into /verif/seeded/<prop>-w4-<n>/."""
import json, os, shutil

# id -> (needs to manifest, property whose check catches it, note)
W2 = {
 'C05-1': ('the zero-timeout re-poll is skipped unless an immediate or socket callback ran since the last poll: after a timer callback the next expired timer runs without the descriptors having been looked at, although the first timer made one ready', 'C05', 'caught only after the oracle net-first-nolook was added: the existing net-first oracle compared against what the latest poll had reported, and here there is no poll to compare with'),
 'C05-2': ('heapify ignores the last element as a right child', 'C05', ''),
 'C05-3': ('cancelling the head of the lowest non-empty immediate queue moves minq past its siblings', 'C05', ''),
 'C06-1': ('network_connect keeps a pointer to the caller\'s timeval instead of a copy: the second address is tried after the caller\'s variable is gone', 'C06', 'ASan stack-use-after-scope: the harness passes a block-scoped timeval'),
 'C06-2': ('network_write docallback takes an int: a completed write of 2 GiB or more reports a truncated count', 'C06', 'caught only after writes of 2^31-1 ... 6*2^30 bytes were generated (untouched anonymous mapping as buffer, simulated kernel accounts by address, at most 0x7ffff000 bytes per send as on Linux)'),
 'C06-3': ('connect() interrupted by a signal (EINTR) treated as failure of that address', 'C06', ''),
 'C07-1': ('poke discards one empty buffer and returns: data queued behind a zero-length write is never sent', 'C07', ''),
 'C07-2': ('netbuf_read_consume rewinds an emptied buffer while a network read is in flight: old bytes duplicated, new bytes lost', 'C07', 'caught only after consume-while-a-wait-is-outstanding (including consume-everything) was generated'),
 'C07-3': ('netbuf_read_wait compares datalen >= bufpos + len: lengths near SIZE_MAX wrap and report success at once', 'C07', 'caught only after wait lengths no buffer can hold (SIZE_MAX-k, SIZE_MAX/2+-k) were generated; refusing them is the accepted answer'),
 'C08-1': ('docallback returns early when the application callback returns non-zero: the request is never torn down', 'C08', 'caught only after callbacks returning non-zero (the documented way to stop the event loop) were generated'),
 'C08-2': ('H->s recorded only after reader and writer exist: if creating them fails the connected socket is never closed', 'C14', 'needs an allocation failure: decided by C14, and only after descriptor accounting (fd-leak) was added next to the memory accounting'),
 'C08-3': ('writbuf failure path no longer frees the buffer being written', 'C08', ''),
 'C09-1': ('ssl branch of netbuf_read_wait computes the minimum read without bufpos', 'C09', 'caught only after the TLS stand-in was built (https.c, netbuf_ssl.c and every ssl branch of http.c/netbuf run for real over a null-cipher network_ssl)'),
 'C09-2': ('Content-Length takes precedence over Transfer-Encoding: chunked when a response carries both', None, 'NOT caught, by decision: a response carrying both headers is not well-formed (RFC 7230 3.3.2: a sender MUST NOT), so it is outside the statement of C09; under C08 (any bytes) the changed code stays memory-safe and calls back once, so C08 holds with the change. Demanding "chunked wins" would be asking for more than either statement says.'),
 'C09-3': ('poke tests the global function pointer instead of W->ssl: once TLS has been used in the process, plain connections are written through the TLS function with a NULL context', 'C09', 'caught only after the TLS stand-in was built and chained requests alternate between HTTPS and plain HTTP inside one process'),
 'C10-1': ('generate_pub stages the generator in the output buffer before reading the private value', 'C10', 'caught only after calls whose private value lives inside the output buffer (offsets 0, 31, 100, 224) were generated'),
 'C10-2': ('blinding bytes staged in the output buffer before the private value is parsed', 'C10', 'same extension as C10-1'),
 'C10-3': ('left-padding computed from the wrong bignum', 'C10', ''),
 'C11-1': ('entropy_read: failed read followed by a successful close reports success', 'C11', ''),
 'C11-2': ('do/while: a zero-length request still runs one generate step', 'C11', ''),
 'C11-3': ('seed material mixed in only when RDRAND support is compiled in', 'C11', ''),
 'C12-1': ('typed _iter wrapper caches the record count: a visitor that shrinks the array is handed records beyond the end', 'C12', 'caught only after the typed wrappers of elasticarray.h (ELASTICARRAY_DECL) and iteration with a shrinking visitor were added'),
 'C12-2': ('resize shrinks storage only when the size decreased: after a refused shrink the bound is never restored', 'C12', ''),
 'C12-3': ('seqptrmap_add counts the entry before the queue add can fail', 'C12', ''),
 'C13-1': ('ptrheap_create heapifies with a NULL comparator cookie', 'C13', ''),
 'C13-2': ('ptrheap_delete tests the comparator result with == -1', 'C13', 'caught only after comparators returning magnitudes other than 1 were generated'),
 'C13-3': ('ptrheap_add counts the element before the append can fail', 'C13', ''),
 'C14-1': ('1xx discard keeps the freed header array pointer (clears nheaders instead): double free when the request later fails', 'C14', ''),
 'C14-2': ('network_read: failed re-registration falls through to the end-of-stream report', 'C14', ''),
 'C14-3': ('http_request2 error path frees sslhost, which https_request frees again', 'C14', 'caught only after https.c ran for real (TLS stand-in)'),
 'C19-1': ('gmtime() instead of gmtime_r(): the broken-down time lives in a static buffer', None, 'NOT caught, by decision: it needs a second thread (or a signal handler) calling gmtime/localtime between the two strftime calls; the library is single-threaded, C19 has no schedule in its quantifier, and the simulation has nothing to interleave here (DESIGN section 8)'),
 'C19-2': ('X-Amz-Expires formatted with %u', 'C19', ''),
 'C19-3': ('AWS4 key assembled in a 256-byte stack buffer: secrets of 252 characters or more are truncated', 'C19', ''),
 'C20-1': ('crypto_aes_key_free: with hardware acceleration compiled in, the software-fallback key is freed without zeroing', 'C20', 'secrets_hw build'),
 'C20-2': ('aws_readkeys: duplicate secret line: the fresh copy is freed without wiping', 'C20', ''),
 'C20-3': ('crypto_aesctr_free uses memset instead of insecure_memzero: removed by dead-store elimination in an optimised build', 'C20', 'caught only after the -O2 build without sanitizers (secrets_o2) was added: with -O1 and ASan the memset survives'),
}

def main():
    for key, (needs, prop, note) in sorted(W2.items()):
        p, n = key.split('-')
        logp = '/tmp/confirm-logs4/%s.log' % key
        if not os.path.exists(logp):
            print(key, 'no confirmation log yet'); continue
        log = open(logp, errors='replace').read()
        if 'RESULT confirmed' not in log:
            print(key, 'NOT confirmed'); continue
        src = '/tmp/wt4/%s/_out/%s' % (p, n)
        dst = '/verif/seeded/%s-w4-%s' % (p, n)
        os.makedirs(dst, exist_ok=True)
        for fn in os.listdir(src):
            fp = os.path.join(src, fn)
            if os.path.isfile(fp) and os.path.getsize(fp) < 200000 and not fn.endswith('.log') and not fn.endswith('.rc'):
                shutil.copy(fp, dst)
        meta = {
            'property': prop, 'caught': prop is not None, 'written_for_property': p, 'id': key + ' (wave 4)',
            'origin': 'independent sub-agent (fourth wave: given the one-line descriptions of all earlier changes for the property and asked for different mechanisms: cleanup-path ordering, re-entrancy, identifier reuse, state shared between objects, rarely used entry points, type limits), given only the property text and a scratch worktree',
            'needs_to_manifest': needs,
            'confirmed_by': 'tools/confirm_seeded.sh in a fresh scratch worktree of /repo HEAD: demo PASS on pristine, patch applies, make ok, make test exit 0, demo FAIL on changed tree',
            'confirmation_log': [l for l in log.splitlines() if l.strip()][:40],
            'detection_note': note,
        }
        json.dump(meta, open(os.path.join(dst, 'meta.json'), 'w'), indent=1)
        print(key, 'imported ->', prop)

main()
