#!/usr/bin/env python3
"""Import confirmed wave-5 sub-agent changes from /tmp/wt5/<prop>/_out/<n> into /verif/seeded/<prop>-w5-<n>/."""
import json, os, shutil

# id -> (what it is / needs, property whose check catches it (None: recorded as outside the statements), note)
W2 = {
 'C05-1': ('growpollfd no longer clears revents of an appended entry: a descriptor registered from a callback into a vacated tail slot inherits readiness', 'C05', ''),
 'C05-2': ('events_network_register: the EEXIST path frees the existing record: a refused duplicate registration destroys the pending one', 'C05', ''),
 'C05-3': ('events_timer_min: "already expired" test requires the microsecond field to be larger too: overdue timer in a later second gives a negative timeout (poll blocks forever)', 'C05', ''),
 'C06-1': ('events_network_get masks the hang-up/error promotion (revents &= events): readiness that is POLLERR/POLLHUP alone never dispatches the callback', 'C06', 'first contact: decided by C05 (wake-run) and C04 (busy loop) in the event-loop engine; caught by C06 itself only after the simulated kernel could report a pending socket error as POLLERR alone'),
 'C06-2': ('network_connect_internal no longer initialises C->s: an empty address list reports uninitialised memory instead of -1', 'C06', ''),
 'C06-3': ('sock_connect_bind_nb sets O_NONBLOCK after connect(): the connect blocks inside the event loop', 'C06', 'caught only after the simulated kernel tracked O_NONBLOCK (fcntl) and gave connect(2) on a blocking descriptor its real semantics: wait for the conclusion, or be stuck for good on an address that never answers'),
 'C07-1': ('netbuf_read_wait_cancel tests the process-wide TLS cancel pointer instead of R->ssl: once TLS was used anywhere in the process, a plain reader cancels through the TLS function', 'C07', 'caught only after runs in which the process used the TLS variant on another connection first were generated (the stand-in flags the foreign cookie)'),
 'C07-2': ('network_write (POSIXFAIL_MSG_NOSIGNAL build): errno saved before send() instead of after: EAGAIN/EINTR are taken for hard errors', 'C07', 'caught only after the build variant netio_pf (-DPOSIXFAIL_MSG_NOSIGNAL) was added'),
 'C07-3': ('network_ssl_write_cancel clears the read flags instead of the write flags', None, 'NOT caught, by construction: network_ssl.c is the one component of the netbuf/http stack that is replaced by a stub (OpenSSL does its own read/write system calls from a shared library, out of reach of the link-time seams), and the change lives entirely inside it'),
 'C08-1': ('http_request_cancel closes the socket only if its number is > 0', 'C08', ''),
 'C08-2': ('mpool_free copies the new (doubled) size when the pool stack grows: over-read of the 16-entry static array', 'C12', 'mpool.h is anchored in C12: caught there (and by C06 with 17 or more requests outstanding); a single http request never grows a pool, so the C08 engine does not reach it'),
 'C08-3': ('warnx passes the formatted message to syslog(3) as the format string', 'C08', 'caught only after the syslog stand-in checked its format argument (a run-time assembled format containing conversions) and hostile status lines / Content-Length values with printf conversions were generated'),
 'C09-1': ('http_request2 keeps the caller\'s method pointer and compares it with "HEAD" only when the connection completes', 'C09', 'caught only after the harness invalidated everything but the body (http.h: only the body must stay valid) as soon as http_request returned: short-lived heap copies, overwritten and freed'),
 'C09-2': ('findeol reads one byte past the valid data', 'C09', ''),
 'C09-3': ('Content-Length ignored whenever any Transfer-Encoding header is present (e.g. identity): the client reads until the server closes', 'C09', 'caught only after keep-alive servers (the connection stays open after the response) and "Transfer-Encoding: identity" next to Content-Length were generated; new oracle C09.status never'),
 'C10-1': ('BN_set_word(two, 2) moved inside assert()', 'C10', 'default build: assertion failure under an injected libcrypto allocation failure; -DNDEBUG build variant: public value of zero'),
 'C10-2': ('crypto_dh_compute ignores the result of BN_bin2bn for the peer value: one failing allocation gives rc 0 with a wrong key', 'C10', 'caught only after the enumeration of libcrypto allocation failures compared every successful result with the failure-free one'),
 'C10-3': ('exponent offset applied with an unchecked BN_set_bit', 'C10', 'same extension as C10-2'),
 'C11-1': ('chunk index of crypto_entropy_read kept in a uint8_t: requests of more than 256 chunks (16 MiB) overwrite the start of the buffer', 'C11', 'caught only after requests of 16 MiB + k were generated (1 in 3000 read steps: each costs about ten seconds under the sanitizers)'),
 'C11-2': ('RDRAND "no data" during a reseed skips mixing in the fresh OS seed', 'C11', 'caught only after the RDRAND build variant was added (instruction and CPUID bit stubbed, reference model extended by the extra state update)'),
 'C11-3': ('RDRAND "no data" on the first call leaves the generator uninitialised but marked instantiated', 'C11', 'same extension as C11-2'),
 'C12-1': ('resize overflow guard rewritten as a wrap test (nsize < nrec): a small count of enormous records passes', 'C12', 'caught only after record sizes of 2^20..2^63 (+r) with counts whose product wraps to something small were generated'),
 'C12-2': ('mpool_free drops the final else free(p): object neither cached nor freed when the cache is full and the autotuner declines to grow', 'C12', ''),
 'C12-3': ('seqptrmap_delete walks leading tombstones with a cached pointer across a queue compaction', 'C12', ''),
 'C13-1': ('ptrheap_increase returns early for the last internal node of an even-sized heap', 'C13', ''),
 'C13-2': ('timerqueue_increase skips the re-sift when tv_sec is unchanged', 'C13', ''),
 'C13-3': ('timerqueue_getptr does not release an entry whose time equals the query time', 'C13', ''),
 'C14-1': ('tryconnect error path resets C->s only when close() fails', 'C14', ''),
 'C14-2': ('netbuf_read_wait: failed immediate registration falls through into the network-read path', 'C14', ''),
 'C14-3': ('ptrheap_create via append: the failed append leaks the new array', 'C14', ''),
 'C19-1': ('sha256_sse2.c byte swap uses an arithmetic shift: bytes >= 0x80 at odd offsets corrupt their neighbour (the run-time self-test hashes 00..3f only)', 'C19', 'caught only after the SSE2 build variant was added (this CPU has SHA-NI, so the default selection never runs the SSE2 code)'),
 'C19-2': ('strftime for the scope date moved inside assert()', 'C19', 'caught only after the -DNDEBUG build variant was added'),
 'C19-3': ('S3 header variant upper-cases the method before signing', 'C19', 'caught only after methods in lower and mixed case were generated'),
 'C20-1': ('AES-NI key expansion loads the key before checking its length; the "unsupported length" path frees without wiping', None, 'NOT caught, by decision: it needs a key length other than 16 or 32, which crypto_aes_key_expand asserts against; only a -DNDEBUG build lets the call through, and C20 quantifies over keys, not over invalid arguments'),
}

def main():
    for key, (needs, prop, note) in sorted(W2.items()):
        p, n = key.split('-')
        logp = '/tmp/confirm-logs5/%s.log' % key
        if not os.path.exists(logp):
            print(key, 'no confirmation log yet'); continue
        log = open(logp, errors='replace').read()
        if 'RESULT confirmed' not in log:
            print(key, 'NOT confirmed'); continue
        src = '/tmp/wt5/%s/_out/%s' % (p, n)
        dst = '/verif/seeded/%s-w5-%s' % (p, n)
        os.makedirs(dst, exist_ok=True)
        for fn in os.listdir(src):
            fp = os.path.join(src, fn)
            if os.path.isfile(fp) and os.path.getsize(fp) < 200000 and not fn.endswith('.log') and not fn.endswith('.rc'):
                shutil.copy(fp, dst)
        meta = {
            'property': prop, 'caught': prop is not None, 'written_for_property': p, 'id': key + ' (wave 5)',
            'origin': 'independent sub-agent (fifth wave: given the one-line descriptions of all earlier changes and pointed at headers, alternative build or run-time configurations, and assumptions about what the caller does with its own buffers), given only the property text and a scratch worktree',
            'needs_to_manifest': needs,
            'confirmed_by': 'tools/confirm_seeded.sh in a fresh scratch worktree of /repo HEAD: demo PASS on pristine, patch applies, make ok, make test exit 0, demo FAIL on changed tree',
            'confirmation_log': [l for l in log.splitlines() if l.strip()][:40],
            'detection_note': note,
        }
        json.dump(meta, open(os.path.join(dst, 'meta.json'), 'w'), indent=1)
        print(key, 'imported ->', prop)

main()
