#!/usr/bin/env python3
"""Import the confirmed wave-6 changes (C04 only: its sub-agents of waves 4 and 5 had failed) from /tmp/wt6/C04/_out/<n>."""
import json, os, shutil

W2 = {
 'C04-1': ('events_immediate_get returns the queue node to the pool before reading the event record out of it: harmless while the pool merely caches the node, a use-after-free once the pool really frees it', 'C14', 'needs more than 4096 immediate events pending at once AND the malloc that grows the pool cache failing (or a million pool hits followed by more than 8192 pending): decided by C14, and only after floods of 4090-5290 pending immediates were generated'),
 'C04-2': ('elasticarray_shrink drops the fallback size update after a failed shrinking realloc: the timer heap re-exposes a stale slot, a cancelled or fired timer runs again', 'C14', 'needs an allocation failure: decided by C14 (same mechanism as C13-w2-1)'),
 'C04-3': ('events_timer_register_double computes the microseconds through an int: timeouts above 2147 s overflow and the timer fires up to 1.5 s early', 'C04', 'UBSan float-cast-overflow on the far-away double deadlines generated since wave 2'),
}

def main():
    for key, (needs, prop, note) in sorted(W2.items()):
        p, n = key.split('-')
        logp = '/tmp/confirm-logs6/%s.log' % key
        if not os.path.exists(logp):
            print(key, 'no confirmation log yet'); continue
        log = open(logp, errors='replace').read()
        if 'RESULT confirmed' not in log:
            print(key, 'NOT confirmed'); continue
        src = '/tmp/wt6/%s/_out/%s' % (p, n)
        dst = '/verif/seeded/%s-w6-%s' % (p, n)
        os.makedirs(dst, exist_ok=True)
        for fn in os.listdir(src):
            fp = os.path.join(src, fn)
            if os.path.isfile(fp) and os.path.getsize(fp) < 200000 and not fn.endswith('.log') and not fn.endswith('.rc'):
                shutil.copy(fp, dst)
        meta = {
            'property': prop, 'caught': True, 'written_for_property': p, 'id': key + ' (wave 6)',
            'origin': 'independent sub-agent (sixth wave, C04 only), given the property text, the one-line descriptions of all earlier event-loop changes and a scratch worktree',
            'needs_to_manifest': needs,
            'confirmed_by': 'tools/confirm_seeded.sh in a fresh scratch worktree of /repo HEAD: demo PASS on pristine, patch applies, make ok, make test exit 0, demo FAIL on changed tree',
            'confirmation_log': [l for l in log.splitlines() if l.strip()][:40],
            'detection_note': note,
        }
        json.dump(meta, open(os.path.join(dst, 'meta.json'), 'w'), indent=1)
        print(key, 'imported ->', prop)

main()
