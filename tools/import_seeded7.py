#!/usr/bin/env python3
"""Import confirmed wave-7 sub-agent changes from /tmp/wt7/<prop>/_out/<n> into /verif/seeded/<prop>-w7-<n>/."""
import json, os, shutil

# id -> (what it is / needs, property whose check catches it (None: outside the statements), note)
W2 = {
 'C04-1': ('immediate drain loop tests "next event != NULL && rc == 0" in that order: after a non-zero result the next immediate is dequeued and dropped, its node is back in the pool while the caller still holds it as a cancel cookie', 'C04', ''),
 'C05-1': ('the dispatch site after the zero-timeout re-poll no longer stores the callback result: a non-zero result of a socket callback found by the re-poll is returned as 0', 'C05', ''),
 'C05-2': ('elasticarray_shrink no longer records the new size after a failed shrinking realloc (timer heap keeps a stale slot)', 'C14', 'needs an allocation failure: decided by C14'),
 'C05-3': ('heads[19] of the immediate queues initialised with the address of heads[18]', 'C05', ''),
 'C06-1': ('network_accept consults errno even after accept(2) succeeded: a stale EINTR/EAGAIN drops the accepted connection', 'C06', ''),
 'C06-2': ('sock_connect_bind_nb leaks the descriptor when connect(2) fails at once', 'C06', 'caught only after descriptor accounting (every socket the code under test created is closed at the end: C06.conn.fd-leak) was added to the netio engine; callback values stay correct until the descriptor table is full'),
 'C06-3': ('network_read reports the partial count instead of 0 when end-of-stream follows a partial transfer', 'C06', ''),
 'C07-1': ('writbuf marks the writer failed only after the failure callback returned', 'C07', ''),
 'C07-2': ('network_read merges the recv()==-1 and ==0 cases: a stale errno of EAGAIN/EINTR turns end-of-stream into an endless re-arm', 'C07', ''),
 'C07-3': ('netbuf_write_reserve looks at the first queued buffer instead of the last for spare room', 'C07', ''),
 'C08-1': ('a header line without a colon gets a value pointer one byte past its terminator', 'C08', ''),
 'C08-2': ('reader buffer growth through realloc: the old buffer is lost when realloc fails', 'C14', 'needs an allocation failure: decided by C14 (leak)'),
 'C08-3': ('addbody frees the partial body on realloc failure without clearing the pointer (double free in the tear-down)', 'C14', 'needs an allocation failure: decided by C14'),
 'C09-1': ('chunk trailer CRLF stripped in one step guarded by readlen >= 2: a lone LF left to read is appended to the body', 'C09', ''),
 'C09-2': ('network_write assigns the send length to the position instead of adding it', 'C09', ''),
 'C09-3': ('network_read passes the whole buffer length to a continuation recv', 'C09', ''),
 'C11-1': ('entropy_read_fill retries on EINTR through continue, which still adds -1 to the position', 'C11', ''),
 'C11-2': ('eager unchecked reseed at the bottom of the chunk loop', 'C11', ''),
 'C11-3': ('instantiated flag set only at the successful end of the first request: a first request that fails after instantiation makes the next one instantiate again', 'C11', 'caught only after plans were generated whose very first request is larger than 256 generate calls and whose in-request reseed fails (1 plan in 600)'),
 'C12-1': ('resize records the new capacity before realloc succeeds', 'C12', ''),
 'C12-2': ('truncate assigns the realloc result directly: buffer lost on failure', 'C12', ''),
 'C12-3': ('mpool_free checks for NULL only after the caching fast path: freeing NULL puts a NULL object into the cache', 'C12', 'caught only after pool_free(NULL) was generated (mpool.h promises free(NULL) semantics)'),
 'C13-1': ('timer-queue comparator works on int64 microsecond counts: tv_sec above 2^63/10^6 wraps negative', 'C13', 'caught only after times at the far end of time_t (around 2^63 us, 2^62 s, TIME_MAX) were generated; UBSan reports the multiplication'),
 'C13-2': ('ptrheap_decrease early return uses rc/2 as the parent index', 'C13', ''),
 'C13-3': ('heapify breaks ties to the right and swaps in the other order: the final reported position of a moved element is the slot about to be stripped', 'C13', ''),
 'C14-1': ('events_timer_register unwinds the event record twice', 'C14', ''),
 'C14-2': ('netbuf_write_reserve: err0 label below the reset of the reserved flag', 'C14', ''),
 'C14-3': ('events_timer_min returns success with a NULL timeout when its allocation fails', 'C14', ''),
 'C19-1': ('SHA-256 bit count of an update computed in 32 bits: wrong digest for a single update of 512 MiB or more', None, 'NOT caught, by decision: C19 quantifies over bodies up to 100 KiB; the trigger is four orders of magnitude beyond it (the demo takes ten seconds natively)'),
 'C19-2': ('HMAC-SHA256 initialisation leaves the inner context in the state of the key hash for keys longer than 64 bytes', 'C19', ''),
 'C19-3': ('payload length narrowed to uint32_t', None, 'NOT caught, by decision: needs a body of 4 GiB or more, outside the quantifier of C19 (bodies up to 100 KiB)'),
 'C20-1': ('AES-NI key free wipes nr round keys instead of nr + 1: the last round key stays in the freed block', 'C20', 'caught thanks to the round-key patterns added after the audit of the wave-3 verdicts (DESIGN 10.10)'),
 'C20-2': ('the first insecure_memzero call of the process is swallowed by a self-test trampoline', 'C20', ''),
 'C20-3': ('aws_readkeys restarts once after a read interrupted by EINTR and frees the strings read so far without wiping', 'C20', 'caught only after the scripted stream reported read errors with errno values other than EIO (EINTR, EAGAIN)'),
}

def main():
    for key, (needs, prop, note) in sorted(W2.items()):
        p, n = key.split('-')
        logp = '/tmp/confirm-logs7/%s.log' % key
        if not os.path.exists(logp):
            print(key, 'no confirmation log yet'); continue
        log = open(logp, errors='replace').read()
        if 'RESULT confirmed' not in log:
            print(key, 'NOT confirmed'); continue
        src = '/tmp/wt7/%s/_out/%s' % (p, n)
        dst = '/verif/seeded/%s-w7-%s' % (p, n)
        os.makedirs(dst, exist_ok=True)
        for fn in os.listdir(src):
            fp = os.path.join(src, fn)
            if os.path.isfile(fp) and os.path.getsize(fp) < 200000 and not fn.endswith('.log') and not fn.endswith('.rc'):
                shutil.copy(fp, dst)
        meta = {
            'property': prop, 'caught': prop is not None, 'written_for_property': p, 'id': key + ' (wave 7)',
            'origin': 'independent sub-agent (seventh wave: given the one-line descriptions of all earlier changes and told that the tool under evaluation injects faults of every kind, uses several build configurations and reference models), given only the property text and a scratch worktree',
            'needs_to_manifest': needs,
            'confirmed_by': 'tools/confirm_seeded.sh in a fresh scratch worktree of /repo HEAD: demo PASS on pristine, patch applies, make ok, make test exit 0, demo FAIL on changed tree',
            'confirmation_log': [l for l in log.splitlines() if l.strip()][:40],
            'detection_note': note,
        }
        json.dump(meta, open(os.path.join(dst, 'meta.json'), 'w'), indent=1)
        print(key, 'imported ->', prop)

main()
