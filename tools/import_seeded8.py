#!/usr/bin/env python3
"""Import confirmed wave-8 sub-agent changes from /tmp/wt8/<prop>/_out/<n> into /verif/seeded/<prop>-w8-<n>/."""
import json, os, shutil

# id -> (what it is / needs, property whose check catches it (None: outside the statements), note)
W2 = {
 'C04-1': ('ptrheap_delete passes no position callback to the upward sift after its first swap: timers moved further up keep stale heap positions', 'C04', ''),
 'C04-2': ('monoclock_get treats EPERM from CLOCK_MONOTONIC like ENOSYS and silently falls back to the wall clock', 'C04', 'caught by the clock-fault plans once the injected errno was drawn from a set including EPERM and the simulated wall clock was offset from the monotonic one (both added while this wave was being written)'),
 'C05-1': ('events_spin overrides a non-zero callback result with 0 when the done flag is set', 'C05', ''),
 'C05-2': ('missing continue after a network event is dispatched: the loop goes on to poll without looking at immediates first', 'C05', ''),
 'C05-3': ('events_network_register leaves the dangling record pointer in the socket table when growing the poll array fails', 'C14', 'needs an allocation failure: decided by C14'),
 'C06-1': ('network_write treats ENOBUFS from send(2) as try-again instead of a hard error', 'C06', 'caught only after two extensions: ENOBUFS/ENOMEM/ENOTCONN/EHOSTUNREACH among the hard errors the simulated kernel answers with (until then ECONNRESET, EPIPE, EIO, ETIMEDOUT), and a missing oracle for the clause "or -1 on error": a request one of whose recv/send calls failed hard must not touch the socket again and must not report a count (C06.rd.err / C06.wr.err [io-after-error | swallowed]); until then only the converse (-1 without a hard error) was checked on the raw path'),
 'C06-2': ('a zero timeout passed to network_connect_timeo is treated as no timeout', 'C06', 'caught by the timeo_zero connect steps added while this wave was being written'),
 'C06-3': ('events_network_cancel moved inside assert() in network_read_cancel: compiled out under NDEBUG', 'C06', 'caught by the NDEBUG build variant netio_nd'),
 'C07-1': ('netbuf_read_wait for 0 bytes with an empty buffer starts a network read of nothing instead of an immediate callback', 'C07', ''),
 'C07-2': ('netbuf_write_reserve compares against the default buffer size instead of the size of the last buffer', 'C07', ''),
 'C07-3': ('network_write returns the result of the failed re-registration instead of reporting the failure through the callback', 'C14', 'needs an allocation failure: decided by C14'),
 'C08-1': ('response body reader clamps the peeked length only after computing the chunk payload length', 'C08', ''),
 'C08-2': ('netbuf writer takes a buffer off its queue before the write is started: lost when starting the write fails', 'C14', 'needs an allocation failure: decided by C14'),
 'C08-3': ('netbuf reader keeps its read cookie after a failed read: the tear-down cancels a read that no longer exists', 'C08', ''),
 'C09-1': ('network_read merges the recv()==0 and ==-1 cases: a stale EAGAIN/EINTR turns end-of-stream into an endless re-arm', 'C09', ''),
 'C09-2': ('the no-body shortcut (HEAD, 204, 304) is taken before 1xx responses are skipped', 'C09', ''),
 'C09-3': ('last-chunk recognised by its first digit: a chunk size such as 0a ends the body', 'C09', ''),
 'C10-1': ('crypto_dh_sanitycheck rewritten over BIGNUMs: a failing second allocation is reported as "sane"', 'C10', 'caught only after the sanity check was run under every libcrypto allocation failure for values not below the prime (added while this wave was being written)'),
 'C10-2': ('generator and modulus BIGNUMs cached in statics guarded by one ready flag that only the modulus sets: compute before generate_pub dereferences NULL', 'C10', 'caught only after plans were generated that compute a shared secret before any public value was generated in the process (added while this wave was being written)'),
 'C11-1': ('reseed inside the request loop followed by continue in a for-loop whose increment reuses the previous chunk length', 'C11', ''),
 'C11-2': ('open(/dev/urandom) retried while errno == EINTR without looking at the result: a stale EINTR opens the device for ever', 'C11', 'caught only after exhausting the table of simulated device sessions became a C11 violation (open-loop) instead of a harness-internal stop'),
 'C11-3': ('a failed reseed wipes the whole generator state: the next request continues from an all-zero (K, V)', 'C11', ''),
 'C12-1': ('seqptrmap_delete narrows the offset difference to unsigned int: numbers 2^32 beyond a live one delete it', 'C12', 'caught by the ghost-number deletes (live number plus a multiple of 2^31 .. 2^48) added while this wave was being written'),
 'C12-2': ('exportdup sizes its copy as nrec * reclen but copies EA->size bytes', 'C12', ''),
 'C12-3': ('a failed shrinking realloc is reported as success without recording the new size', 'C12', ''),
 'C13-1': ('ptrheap_delete leaves the moved element without a position report when it ties with its parent', 'C13', ''),
 'C13-2': ('ptrheap_increasemin returns early for heaps of two elements', 'C13', ''),
 'C13-3': ('ptrheap_deletemin reimplemented: the moved element gets no position report when it stays at the root', 'C13', ''),
 'C14-1': ('events_run leaks the timeout when events_network_select fails', 'C14', ''),
 'C14-2': ('network_connect dofailed returns the failure of tryconnect instead of delivering the callback', 'C14', ''),
 'C14-3': ('network_write: failed re-registration returned instead of reported', 'C14', ''),
 'C19-1': ('aws_sign uses the caller\'s signature buffer as scratch and returns 0 when building the string to sign fails', 'C19', ''),
 'C19-2': ('credential scope date cached by day of the year: a second signature on the same day of another year carries the old date', 'C19', ''),
 'C19-3': ('the pre-signed S3 URL variant signs "/" in place of an empty path', 'C19', ''),
 'C20-1': ('AES-NI key free wipes 240 bytes from the start of the key buffer instead of the whole structure: with an allocator that returns blocks at 8 mod 16 the last 8 bytes of the 15th round key of an AES-256 key stay in the freed block', None, 'NOT caught, by decision: needs malloc to return blocks that are not 16-byte aligned, which the platform ABI of this sandbox (x86-64 glibc; ASan and valgrind likewise) rules out and which clang is entitled to rely on when it compiles the library (malloc is a known builtin with 16-byte result alignment); a simulated allocator that broke that promise could make correct code fail.  With 16-byte aligned blocks the changed function wipes every key byte, so the statement of C20 holds on every execution this platform can produce'),
}

def main():
    for key, (needs, prop, note) in sorted(W2.items()):
        p, n = key.split('-')
        logp = '/tmp/confirm-logs8/%s.log' % key
        if not os.path.exists(logp):
            print(key, 'no confirmation log yet'); continue
        log = open(logp, errors='replace').read()
        if 'RESULT confirmed' not in log:
            print(key, 'NOT confirmed'); continue
        src = '/tmp/wt8/%s/_out/%s' % (p, n)
        dst = '/verif/seeded/%s-w8-%s' % (p, n)
        os.makedirs(dst, exist_ok=True)
        for fn in os.listdir(src):
            fp = os.path.join(src, fn)
            if os.path.isfile(fp) and os.path.getsize(fp) < 200000 and not fn.endswith('.log') and not fn.endswith('.rc'):
                shutil.copy(fp, dst)
        meta = {
            'property': prop, 'caught': prop is not None, 'written_for_property': p, 'id': key + ' (wave 8)',
            'origin': 'independent sub-agent (eighth wave: given the one-line descriptions of all earlier changes and told that the tool under evaluation injects faults of every kind, uses several build configurations and reference models), given only the property text and a scratch worktree',
            'needs_to_manifest': needs,
            'confirmed_by': 'tools/confirm_seeded.sh in a fresh scratch worktree of /repo HEAD: demo PASS on pristine, patch applies, make ok, make test exit 0, demo FAIL on changed tree',
            'confirmation_log': [l for l in log.splitlines() if l.strip()][:40],
            'detection_note': note,
        }
        json.dump(meta, open(os.path.join(dst, 'meta.json'), 'w'), indent=1)
        print(key, 'imported ->', prop)

main()
