#!/usr/bin/env python3
"""Generate mutants/*.patch (sensitivity targets of DESIGN.md) from the current /repo sources.

Each mutant is a small textual edit that still compiles; the patch is `diff -u` output applicable with patch -p1.
The table maps mutant name -> (file, property it must break, old text, new text).
"""
import difflib
import os
import sys

REPO = '/repo'
OUT = os.path.join(os.path.dirname(os.path.dirname(os.path.abspath(__file__))), 'mutants')

M = {
    # ---- C04 / C05: event loop
    'ev01_clearbit_keeps_revents': ('events/events_network.c', 'C04',
        "\tfds[pollpos].revents &= (short)(~bit);\n", ""),
    'ev02_growpollfd_stale_revents': ('events/events_network.c', 'C04',
        "\tfds[nfds].revents = 0;\n", ""),
    'ev03_reader_not_cleared': ('events/events_network.c', 'C04',
        "\t\t\tsocketlist_get(S,\n\t\t\t    (size_t)fds[fdscanpos].fd)->reader = NULL;\n", ""),
    'ev04_no_usec_carry': ('events/events_timer.c', 'C04',
        "if ((tv->tv_usec += tdelta->tv_usec) >= 1000000) {", "if ((tv->tv_usec += tdelta->tv_usec) >= 2000000) {"),
    'ev05_getptr_cmp_flipped': ('datastruct/timerqueue.c', 'C04',
        "if (tvcmp(&r->tv, tv) > 0)", "if (tvcmp(&r->tv, tv) < 0)"),
    'ev06_imm_cancel_no_remove': ('events/events_immediate.c', 'C04',
        "\t/* Remove it from the list. */\n\tTAILQ_REMOVE(&heads[prio], q, entries);\n", "\t(void)prio;\n"),
    'ev07_imm_lifo': ('events/events_immediate.c', 'C05',
        "TAILQ_INSERT_TAIL(&heads[prio], q, entries);", "TAILQ_INSERT_HEAD(&heads[prio], q, entries);"),
    'ev08_no_minq_update': ('events/events_immediate.c', 'C05',
        "\tif (prio < minq)\n\t\tminq = prio;\n", ""),
    'ev09_timer_min_null': ('events/events_timer.c', 'C05',
        "\t/* Get the minimum timer from the queue. */\n\ttv = timerqueue_getmin(Q);", "\ttv = NULL;"),
    'ev10_timeout_div100': ('events/events_network.c', 'C05',
        "(tv->tv_usec + 999) / 1000", "(tv->tv_usec + 999) / 100"),
    'ev11_ignore_rc_net': ('events/events.c', 'C05',
        "\t\tif ((r = events_network_get()) != NULL) {\n\t\t\tif ((rc = doevent(r)) != 0)\n\t\t\t\tgoto done;\n\t\t\tcontinue;\n\t\t}\n\n\t\t/* Check if any new",
        "\t\tif ((r = events_network_get()) != NULL) {\n\t\t\t(void)doevent(r);\n\t\t\tcontinue;\n\t\t}\n\n\t\t/* Check if any new"),
    'ev12_no_intr_check_in_loop': ('events/events.c', 'C05',
        "\tdo {\n\t\t/* Interrupt loop if requested. */\n\t\tif (interrupt_requested)\n\t\t\tgoto done;\n", "\tdo {\n"),
    'ev13_no_intr_reset': ('events/events.c', 'C05',
        "\t/* Reset interrupt_requested after quitting the loop. */\n\tinterrupt_requested = 0;\n\n\t/* Return status. */", "\t/* Return status. */"),
    'ev14_reset_uses_decrease': ('datastruct/timerqueue.c', 'C05',
        "ptrheap_increase(Q->H, r->rc);", "ptrheap_decrease(Q->H, r->rc);"),
    'ev15_cancel_no_clearbit': ('events/events_network.c', 'C04',
        "\tif (op == EVENTS_NETWORK_OP_READ)\n\t\tclearbit(socketlist_get(S, (size_t)s)->pollpos, POLLIN);\n\telse\n\t\tclearbit(socketlist_get(S, (size_t)s)->pollpos, POLLOUT);\n", ""),
    'ev16_hup_promotes_both': ('events/events_network.c', 'C04',
        "fds[fdscanpos].revents |= fds[fdscanpos].events;", "fds[fdscanpos].revents |= (POLLIN | POLLOUT);"),
    'ev17_timer_before_net': ('events/events.c', 'C05', '@swap_net_timer', ''),
    'ev18_spin_ignores_done': ('events/events.c', 'C05',
        "while ((done[0] == 0) && (rc == 0) && (interrupt_requested == 0)) {", "while ((rc == 0) && (interrupt_requested == 0)) {"),
    # ---- C06: network_*
    'nw01_read_min_off_by_one': ('network/network_read.c', 'C06',
        "\tif (C->bufpos < C->minlen)\n\t\tgoto tryagain;", "\tif (C->bufpos <= C->minlen)\n\t\tgoto tryagain;"),
    'nw02_read_eintr_is_error': ('network/network_read.c', 'C06',
        "#endif\n\t\t    (errno == EINTR))\n\t\t\tgoto tryagain;\n\n\t\t/* Something went wrong. */\n\t\tgoto failed;\n\t} else if (len == 0) {",
        "#endif\n\t\t    0)\n\t\t\tgoto tryagain;\n\n\t\t/* Something went wrong. */\n\t\tgoto failed;\n\t} else if (len == 0) {"),
    'nw03_read_ignores_bufpos': ('network/network_read.c', 'C06',
        "len = recv(C->fd, C->buf + C->bufpos, oplen, 0);", "len = recv(C->fd, C->buf, oplen, 0);"),
    'nw04_write_no_nosignal': ('network/network_write.c', 'C06',
        "len = send(C->fd, C->buf + C->bufpos, oplen, MSG_NOSIGNAL);", "len = send(C->fd, C->buf + C->bufpos, oplen, 0);"),
    'nw05_connect_same_address_again': ('network/network_connect.c', 'C06',
        "\t/* This address didn't work. */\n\tC->sas++;\n", "\t/* This address didn't work. */\n"),
    'nw06_timeo_keeps_socket_event': ('network/network_connect.c', 'C06',
        "\t/* Stop listening for this socket. */\n\tevents_network_cancel(C->s, EVENTS_NETWORK_OP_WRITE);\n", ""),
    'nw07_accept_econnaborted_fatal': ('network/network_accept.c', 'C06',
        "\t\t    (errno == ECONNABORTED) ||\n", ""),
    'nw08_write_reports_last_len': ('network/network_write.c', 'C06',
        "\treturn (docallback(C, (ssize_t)C->bufpos));", "\treturn (docallback(C, len));"),
    # ---- C07: netbuf
    'nb01_wait_min_without_bufpos': ('netbuf/netbuf_read.c', 'C07',
        "\t\t    R->buflen - R->datalen, R->bufpos + len - R->datalen,\n\t\t    callback_read, R)) == NULL)",
        "\t\t    R->buflen - R->datalen, len - R->datalen,\n\t\t    callback_read, R)) == NULL)"),
    'nb02_compact_moves_too_much': ('netbuf/netbuf_read.c', 'C07',
        "\t\tmemmove(R->buf, &R->buf[R->bufpos], R->datalen - R->bufpos);", "\t\tmemmove(R->buf, &R->buf[R->bufpos], R->datalen);"),
    'nb03_grow_copies_too_much': ('netbuf/netbuf_read.c', 'C07',
        "\tmemcpy(nbuf, &R->buf[R->bufpos], R->datalen - R->bufpos);", "\tmemcpy(nbuf, &R->buf[R->bufpos], R->datalen);"),
    'nb04_writer_error_not_failure': ('netbuf/netbuf_write.c', 'C07',
        "\tif ((size_t)(writelen) != WB->datalen)\n\t\tW->failed = 1;", "\tif (writelen == 0)\n\t\tW->failed = 1;"),
    'nb05_writer_sends_after_fail': ('netbuf/netbuf_write.c', 'C07',
        "\t/* If we've failed, don't try to do anything more. */\n\tif (W->failed)\n\t\treturn (0);\n", ""),
    'nb06_writer_head_insert': ('netbuf/netbuf_write.c', 'C07',
        "\tSTAILQ_INSERT_TAIL(&W->buffers, WB, entries);", "\tSTAILQ_INSERT_HEAD(&W->buffers, WB, entries);"),
    # ---- C08 / C09: http
    'ht01_keep_chunk_eol': ('http/http.c', 'C09',
        "\t\telse if (datalen > H->readlen - 2)\n\t\t\tdatalen = H->readlen - 2;", "\t\telse if (datalen > H->readlen - 1)\n\t\t\tdatalen = H->readlen - 1;"),
    'ht02_no_leading_ows_strip': ('http/http.c', 'C09',
        "\t\tH->res.headers[i].value += strspn(H->res.headers[i].value,\n\t\t    \" \\t\");\n", ""),
    'ht03_split_at_last_colon': ('http/http.c', 'C09',
        "\t\tcpos = strcspn(s, \":\");", "\t\tcpos = strrchr(s, ':') ? (size_t)(strrchr(s, ':') - s) : strlen(s);"),
    'ht04_204_has_body': ('http/http.c', 'C09',
        "\t    (H->res.status == 204) || (H->res.status == 304)) {", "\t    (H->res.status == 304)) {"),
    'ht05_req_headlen_value_only': ('http/http.c', 'C09',
        "\ts = stpcpy(s, \" HTTP/1.1\\r\\n\");", "\ts = stpcpy(s, \" HTTP/1.0\\r\\n\");"),
    'ht06_hepos_not_reset': ('http/http.c', 'C09',
        "\t\t/* The next header block starts at the start of the buffer. */\n\t\tH->hepos = 0;\n", ""),
    'ht07_chunk_limit_off': ('http/http.c', 'C08',
        "\t\tif (clen > H->res_bodylen_max - H->res.bodylen)\n\t\t\treturn (toobig(H));", "\t\tif (clen > H->res_bodylen_max)\n\t\t\treturn (toobig(H));"),
    'ht08_no_hexdigit_check': ('http/http.c', 'C08',
        "\t\tif (!isxdigit(buf[0])) {", "\t\tif (0 && !isxdigit(buf[0])) {"),
    'ht09_status_range': ('http/http.c', 'C08',
        "\tif ((H->res.status < 100) || (H->res.status > 599)) {", "\tif (H->res.status < 100) {"),
    'ht10_toeof_limit': ('http/http.c', 'C08',
        "\tif (buflen > H->res_bodylen_max - H->res.bodylen)\n\t\treturn (toobig(H));\n\n\t/* Add this to our internal buffer. */",
        "\tif (buflen > H->res_bodylen_max)\n\t\treturn (toobig(H));\n\n\t/* Add this to our internal buffer. */"),
    'ht11_leak_res_head_on_1xx': ('http/http.c', 'C08',
        "\t\t/* Free the headers. */\n\t\tfree(H->res_head);\n", "\t\t/* Free the headers. */\n"),
    # ---- C11: DRBG
    'dr01_interval_255': ('crypto/crypto_entropy.c', 'C11', "#define RESEED_INTERVAL\t256", "#define RESEED_INTERVAL\t255"),
    'dr02_counter_not_reset': ('crypto/crypto_entropy.c', 'C11',
        "\t/* Reset the reseed_counter. */\n\tdrbg.reseed_counter = 1;\n", ""),
    'dr03_seed_32_bytes': ('crypto/crypto_entropy.c', 'C11',
        "\tif (entropy_read(seed_material, 48))\n\t\treturn (-1);", "\tif (entropy_read(seed_material, 32))\n\t\treturn (-1);\n\tmemset(seed_material + 32, 0, 16);"),
    'dr04_skip_second_update_round': ('crypto/crypto_entropy.c', 'C11',
        "\tif (datalen != 0) {", "\tif (datalen > 32) {"),
    'dr05_eof_accepted': ('util/entropy.c', 'C11',
        "\t\tif (lenread == 0) {\n\t\t\twarn0(\"EOF on /dev/urandom?\");\n\t\t\tgoto err0;\n\t\t}", "\t\tif (lenread == 0)\n\t\t\tbreak;"),
    'dr06_generate_maxlen': ('crypto/crypto_entropy.c', 'C11',
        "\t\tif (buflen > GENERATE_MAXLEN)\n\t\t\tbytes_to_provide = GENERATE_MAXLEN;", "\t\tif (buflen > GENERATE_MAXLEN + 1)\n\t\t\tbytes_to_provide = GENERATE_MAXLEN;"),
    # ---- C12 / C13 / C14: containers
    'ct01_ea_size_before_alloc': ('datastruct/elasticarray.c', 'C14',
        "\t\tif ((nbuf = realloc(EA->buf, nalloc)) == NULL)\n\t\t\tgoto err0;\n\t\tEA->buf = nbuf;\n\t\tEA->alloc = nalloc;\n\t}\n\n\t/* Record the new array size. */\n\tEA->size = nsize;",
        "\t\tEA->size = nsize;\n\t\tif ((nbuf = realloc(EA->buf, nalloc)) == NULL)\n\t\t\tgoto err0;\n\t\tEA->buf = nbuf;\n\t\tEA->alloc = nalloc;\n\t}\n\n\t/* Record the new array size. */\n\tEA->size = nsize;"),
    'ct02_eq_len_before_append': ('datastruct/elasticqueue.c', 'C14',
        "\tif (elasticarray_append(EQ->EA, rec, 1, EQ->reclen))\n\t\tgoto err0;\n\n\t/* The queue just gained a record. */\n\tEQ->len += 1;",
        "\tEQ->len += 1;\n\tif (elasticarray_append(EQ->EA, rec, 1, EQ->reclen))\n\t\tgoto err0;"),
    'ct03_ea_shrink_threshold': ('datastruct/elasticarray.c', 'C12',
        "\t} else if (EA->alloc / 4 > nsize) {", "\t} else if (EA->alloc / 8 > nsize) {"),
    'ct04_eq_compaction_condition': ('datastruct/elasticqueue.c', 'C12',
        "\t\t\toldpos = elasticarray_get(EQ->EA, i + EQ->offset,\n\t\t\t    EQ->reclen);", "\t\t\toldpos = elasticarray_get(EQ->EA, i + EQ->offset - 1,\n\t\t\t    EQ->reclen);"),
    'ct05_map_getmin_stale': ('datastruct/seqptrmap.c', 'C12',
        "\t\telasticqueue_delete(M->ptrs);\n\t\tM->offset += 1;\n\t\tM->len -= 1;", "\t\telasticqueue_delete(M->ptrs);\n\t\tM->len -= 1;"),
    'ct06_net_register_leaves_rec': ('events/events_network.c', 'C14',
        "err1:\n\tevents_freerec(*r);\n\t*r = NULL;\nerr0:", "err1:\n\tevents_freerec(*r);\nerr0:"),
    'ct07_timer_register_leaks_t': ('events/events_timer.c', 'C14',
        "err2:\n\tfree(t);\nerr1:", "err2:\nerr1:"),
    'ct08_network_read_leaks_cookie': ('network/network_read.c', 'C14',
        "err1:\n\tmpool_network_read_cookie_free(C);\nerr0:", "err1:\nerr0:"),
    # ---- C19 / C20
    'aw01_hmac_key_64': ('alg/sha256.c', 'C19', "\tif (Klen > 64) {", "\tif (Klen >= 64) {"),
    'aw02_scope_region_twice': ('aws/aws_sign.c', 'C19',
        "\t    \"Credential=%s/%s/%s/s3/aws4_request,\"\n", "\t    \"Credential=%s/%s/%s/s3/aws4_request ,\"\n"),
    'se01_sha256_final_no_wipe': ('alg/sha256.c', 'C20', '@first:insecure_memzero(ctx, sizeof(SHA256_CTX));', ''),
    'se02_aes_free_no_wipe': ('crypto/crypto_aes.c', 'C20', "\tinsecure_memzero(key, sizeof(AES_KEY));\n\n\t/* Free the key. */", "\t/* Free the key. */"),
    'se03_aesctr_free_no_wipe': ('crypto/crypto_aesctr.c', 'C20', '@first:insecure_memzero(stream, sizeof(struct crypto_aesctr));', ''),
    'se06_aesni_free_no_wipe': ('crypto/crypto_aes_aesni.c', 'C20', '@first:insecure_memzero(key, sizeof(struct crypto_aes_key_aesni));', ''),
    'se04_readkeys_no_wipe': ('aws/aws_readkeys.c', 'C20',
        "\t\tinsecure_memzero(*key_secret, strlen(*key_secret));\n", ""),
    'se05_dh_blinding_free_not_clear': ('crypto/crypto_dh.c', 'C20',
        "err3:\n\tBN_clear_free(blinding_bn);", "err3:\n\tBN_free(blinding_bn);"),
    'dh01_sanity_ge': ('crypto/crypto_dh.c', 'C10',
        "if (memcmp(pub, crypto_dh_group14, 256) >= 0)", "if (memcmp(pub, crypto_dh_group14, 256) > 0)"),
    'dh02_priv_offset_3': ('crypto/crypto_dh.c', 'C10',
        "\tif ((!BN_add(priv_bn, priv_bn, two_exp_256_bn)) ||\n\t    (!BN_add(priv_bn, priv_bn, two_exp_256_bn)) ||",
        "\tif ((!BN_add(priv_bn, priv_bn, two_exp_256_bn)) ||"),
}


def swap_net_timer(s):
    a = s.index("\t\t/* Run a network event, if one is available. */")
    b = s.index("\t\t/* Check if any new network events are available. */")
    c = s.index("\t\t/* Run a timer event, if one is available. */")
    d = s.index("\t\t/* No events available. */")
    # timers before the zero-timeout re-poll: order becomes net(already reported) -> timer -> re-poll+net
    return s[:b] + s[c:d] + s[b:c] + s[d:]


def main():
    os.makedirs(OUT, exist_ok=True)
    only = sys.argv[1:]
    for name, (fn, prop, old, new) in sorted(M.items()):
        if only and name not in only:
            continue
        src = open(os.path.join(REPO, fn)).read()
        if old == '@swap_net_timer':
            mod = swap_net_timer(src)
        elif old.startswith('@first:'):
            needle = old[len('@first:'):]
            if needle not in src:
                print(name, 'NEEDLE NOT FOUND')
                continue
            if needle.endswith('free('):
                i = src.index(needle)
                mod = src[:i] + src[i:].replace(needle[:needle.index('\n') + 1], '', 1)
            else:
                mod = src.replace(needle, '(void)0;', 1)
        else:
            if old not in src:
                print(name, 'OLD TEXT NOT FOUND in', fn)
                continue
            mod = src.replace(old, new, 1)
        if mod == src:
            print(name, 'NO CHANGE')
            continue
        diff = ''.join(difflib.unified_diff(src.splitlines(True), mod.splitlines(True), 'a/' + fn, 'b/' + fn))
        with open(os.path.join(OUT, '%s.%s.patch' % (name, prop)), 'w') as f:
            f.write(diff)
    print(len(os.listdir(OUT)), 'patches in', OUT)


if __name__ == '__main__':
    main()
