#!/bin/sh
# usage: quick_all.sh [tier] [props...]  -- run the checks of all claimed properties one after the other; one summary line each
TIER=${1:-quick}
shift 2>/dev/null
PROPS=${*:-C04 C05 C06 C07 C08 C09 C10 C11 C12 C13 C14 C19 C20}
for p in $PROPS; do
  s=$(date +%s)
  out=$(python3 /verif/driver/verif.py check $p --tier $TIER 2>&1)
  rc=$?
  e=$(date +%s)
  echo "== $p exit=$rc $((e-s))s"
  echo "$out" | grep -E "VIOLATION|KNOWN-FINDING|oracle=|INTERNAL|Traceback|Error|runs," | cut -c1-260
done
echo quick-all-done
