#!/bin/sh
# usage: smoke.sh engine prop first count  -- single-process batch + summary of violation classes
E=$(python3 /verif/driver/verif.py exe $1) || exit 2
mkdir -p /verif/build/out
timeout ${TMO:-600} $E --prop $2 --batch $3 $4 /verif/build/out/smoke-$1-$2
python3 - /verif/build/out/smoke-$1-$2.jsonl <<'PY'
import json,sys,collections
c=collections.Counter(); ex={}
for l in open(sys.argv[1]):
    o=json.loads(l)
    if o['t']=='summary':
        print({k:v for k,v in o.items() if k!='cnt'})
        print({k:v for k,v in o['cnt'].items() if v==0} and 'ZERO counters: '+str([k for k,v in o['cnt'].items() if v==0]))
    else:
        k=(o['kind'],o['oracle'],o['sig'],tuple(o['af']) if o['af'][0]>=0 else ()); 
        k=(o['kind'],o['oracle'],o['sig'])
        c[k]+=1; ex.setdefault(k,(o['seed'],o['af'],o['msg'][:200]))
for k,v in c.most_common(): print(v,k,ex[k])
PY
