#!/bin/sh
# usage: smoke_all.sh [N] [engine-substring]  -- one batch per (engine, property) incl. build variants; one line each
N=${1:-2000}
python3 - "$2" <<'PY' > /tmp/smoke_pairs.txt
import sys
sys.path.insert(0, '/verif/driver')
from engines import PROP_ENGINES
for p, es in sorted(PROP_ENGINES.items()):
    for e in es:
        if len(sys.argv) < 2 or sys.argv[1] in e:
            print(e, p)
PY
while read e p; do
  n=$N
  case $p in C14) n=$((N/40+5));; esac
  case $e in entropy*) n=$((N/10+20));; esac
  out=$(TMO=1500 /verif/tools/smoke.sh $e $p 1 $n 2>&1 | grep -v "^ZERO" | cut -c1-230)
  echo "== $e $p: $(echo "$out" | head -1 | sed -e "s/'t': 'summary', 'first': 1, //; s/'internal.*wall_s/'wall_s/")"
  echo "$out" | tail -n +2 | head -4
done < /tmp/smoke_pairs.txt
echo smoke-all-done
